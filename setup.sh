#!/bin/bash
# Offline setup: warm the Go build cache for the harness (normal build; the
# race build used by C19 is warmed too). Nothing is fetched.
set -e
export GOFLAGS=-mod=mod GOPROXY=off GOSUMDB=off GOTOOLCHAIN=local
cd "$(dirname "$0")/mc"
mkdir -p ../.bin ../evidence ../replays
CGO_ENABLED=0 go build -tags verif -o ../.bin/mc.setup . && rm -f ../.bin/mc.setup
echo setup ok
