#!/bin/bash
# Offline setup: warm the Go build cache for the harness (normal build; the
# race build used by C19 is warmed too). Nothing is fetched.
set -e
export GOFLAGS=-mod=mod GOPROXY=off GOSUMDB=off GOTOOLCHAIN=local
cd "$(dirname "$0")/mc"
mkdir -p ../.bin ../evidence ../replays
CGO_ENABLED=0 go build -tags verif -o ../.bin/mc.setup . && rm -f ../.bin/mc.setup
# the race-detector build used by C19's supplementary pass (needs cgo + gcc, both present offline)
CGO_ENABLED=1 go build -race -tags verif -o ../.bin/mc_race.setup . && rm -f ../.bin/mc_race.setup || echo "race build unavailable: C19 skips its race pass"
echo setup ok
