package main

// C09 — path steps compose and leave their evaluation context intact.
// Explicit-state exploration: a state is the item sequence a prefix produced on
// a document; a transition appends one step; every transition of every prefix
// (depth-bounded) is executed on the real code and compared with the per-item
// composition.

import (
	"fmt"
	"strings"
)

func c09Steps() []*Expr {
	f := func(p *Expr) *Expr { return sFilter(p) }
	steps := []*Expr{
		sKey("a"), sKey("b"), sKey("value"), sAnyKey(), sAnyArray(),
		sIndex(sub1(eInt(0))), sIndex(sub1(eInt(1))), sIndex(sub1(eLast())), sIndex(subR(eInt(0), eInt(1))), sIndex(sub1(eInt(0)), sub1(eInt(1))),
		sIndex(subR(lastMinus(1), eLast())),
		sAny(0, -1), sAny(1, 1), sAny(1, 2),
		sMethod("type"), sMethod("size"), sMethod("double"), sMethod("number"), sMethod("integer"), sMethod("bigint"), sMethod("boolean"),
		sMethod("string"), sMethod("abs"), sMethod("floor"), sMethod("ceiling"), sMethod("keyvalue"), sDT("datetime", nil),
		f(eCmp("==", eCur(), eInt(1))), f(eCmp("==", eCur(sKey("a")), eInt(1))), f(eExists(eCur(sKey("a")))), f(eCmp(">", eCur(), eInt(0))),
		f(eCmp("==", eCur(sAnyArray()), eInt(1))), f(eCmp("==", eCur(sMethod("type")), eStr("object"))),
		f(eExists(eCur(sAnyKey(), sFilter(eCmp("==", eCur(), eInt(1)))))),
		// an operand that walks key/value pairs and fails on one of them (at any position in key order)
		f(eCmp("==", eCur(sMethod("keyvalue"), sKey("value"), sMethod("double")), eInt(1))),
		f(eExists(eCur(sMethod("keyvalue"), sKey("value"), sMethod("integer")))),
	}
	return steps
}

type c09StepRes struct {
	class string
	items []any
}

type c09Explorer struct {
	r       *Run
	strict  bool
	steps   []*Expr
	texts   []string
	maxLen  int
	doc     docEntry
	unord   bool
	cache   map[string]c09StepRes // (step index, item canon) -> Query($ step, item)
	states  map[string]struct{}
	trans   int64
	outcome map[string]int64
}

func modeText(strict bool) string {
	if strict {
		return "strict "
	}
	return ""
}

func (x *c09Explorer) stepOn(si int, item any, key string) c09StepRes {
	ck := fmt.Sprintf("%d|%s", si, key)
	if v, ok := x.cache[ck]; ok {
		return v
	}
	p, err, pan := parseCached(modeText(x.strict) + "$" + x.texts[si])
	if err != nil || pan != "" {
		panic("harness: C09 step does not parse: " + x.texts[si])
	}
	o := implQuery(p, item, runCfg{})
	res := c09StepRes{class: o.Class, items: o.Items}
	x.cache[ck] = res
	return res
}

// c09Compose: the composition oracle for one transition.
func c09Compose(strict bool, prefixText, stepText string, doc any, unordered bool, stepOn func(item any) c09StepRes) (*Failure, Out, string) {
	mt := modeText(strict)
	pP, e1, _ := parseCached(mt + "$" + prefixText)
	pPS, e2, _ := parseCached(mt + "$" + prefixText + stepText)
	if e1 != nil || e2 != nil {
		return &Failure{Sig: "C09/parse", Expected: "prefix and extension parse", Observed: fmt.Sprint(e1, e2)}, Out{}, ""
	}
	base := implQuery(pP, doc, runCfg{})
	lhs := implQuery(pPS, doc, runCfg{})
	mode := strings.TrimSpace(mt)
	if mode == "" {
		mode = "lax"
	}
	if lhs.Class == "panic" {
		return &Failure{Sig: "C09/panic/" + mode, Expected: "no panic", Observed: lhs.String()}, lhs, ""
	}
	if base.Class != "ok" {
		if lhs.Class == "ok" {
			return &Failure{Sig: "C09/prefix-failure-lost/" + mode, Expected: "failure (the prefix fails: " + base.String() + ")", Observed: lhs.String()}, lhs, ""
		}
		return nil, lhs, "prefix-error"
	}
	for _, it := range base.Items {
		if multiMember(it) {
			unordered = true // member order of a multi-member object (also a generated keyvalue triple) is open
		}
	}
	var want []any
	wantClass := "ok"
	for _, it := range base.Items {
		sr := stepOn(it)
		if sr.class != "ok" {
			wantClass = sr.class
			break
		}
		want = append(want, sr.items...)
	}
	if wantClass != "ok" {
		if lhs.Class == "ok" {
			return &Failure{Sig: "C09/item-failure-lost/" + mode, Expected: wantClass + " (the step fails on an item of the prefix)", Observed: lhs.String()}, lhs, ""
		}
		if lhs.Class != wantClass && !unordered {
			return &Failure{Sig: "C09/error-class/" + mode, Expected: wantClass, Observed: lhs.String()}, lhs, ""
		}
		return nil, lhs, "error"
	}
	if lhs.Class != "ok" {
		// With open member order a later failing item may be met first by the chained run.
		if unordered {
			for _, it := range base.Items {
				if stepOn(it).class != "ok" {
					return nil, lhs, "error"
				}
			}
		}
		return &Failure{Sig: "C09/spurious-failure/" + lhs.Class + "/" + mode, Expected: "ok " + canonList(want), Observed: lhs.String()}, lhs, ""
	}
	got, exp := canonList(lhs.Items), canonList(want)
	if unordered {
		got, exp = canonMultiset(lhs.Items), canonMultiset(want)
	}
	if got != exp {
		return &Failure{Sig: "C09/composition/" + mode, Expected: exp, Observed: got}, lhs, ""
	}
	return nil, lhs, "ok"
}

func (x *c09Explorer) explore(prefix []int, prefixText string, afterAny, afterKV bool) {
	if len(prefix) >= x.maxLen {
		return
	}
	for si, st := range x.steps {
		if x.strict && afterAny {
			continue // steps following .** in strict mode are excluded by the property
		}
		if afterKV && (st.K == KAnyKey || st.K == KAny || (st.K == KMethod && st.S == "keyvalue")) {
			continue // would expose raw keyvalue ids, which are compared only modulo base object
		}
		keys := map[uintptr]string{}
		_ = keys
		f, lhs, kind := c09Compose(x.strict, prefixText, x.texts[si], x.doc.f, x.unord, func(item any) c09StepRes {
			return x.stepOn(si, item, canon(item))
		})
		x.trans++
		x.r.evals.Add(1)
		x.r.traces.Add(2)
		if f != nil {
			x.r.Fail(Case{Rule: "composition", Path: modeText(x.strict) + "$" + prefixText + x.texts[si], Doc: x.doc.text, Num: "float64",
				Extra: map[string]string{"prefix": prefixText, "step": x.texts[si], "mode": modeText(x.strict)}}, f)
			continue
		}
		x.outcome[kind]++
		if lhs.Class != "ok" {
			continue // failed states have no successors worth exploring: every extension fails the same way
		}
		sk := canonMultiset(lhs.Items)
		if !x.unord {
			sk = canonList(lhs.Items)
		}
		if _, seen := x.states[sk]; !seen {
			x.states[sk] = struct{}{}
		}
		if len(lhs.Items) == 0 {
			continue // the empty state is absorbing
		}
		x.explore(append(prefix, si), prefixText+x.texts[si], afterAny || st.K == KAny, afterKV || (st.K == KMethod && st.S == "keyvalue"))
	}
}

func checkC09(c Case) *Failure {
	switch c.Rule {
	case "composition":
		strict := c.Extra["mode"] != ""
		doc := mustDoc(c.Doc, "float64")
		f, _, _ := c09Compose(strict, c.Extra["prefix"], c.Extra["step"], doc, multiMember(doc), func(item any) c09StepRes {
			p, _, _ := parseCached(modeText(strict) + "$" + c.Extra["step"])
			o := implQuery(p, item, runCfg{})
			return c09StepRes{class: o.Class, items: o.Items}
		})
		return f
	case "variable-start", "literal-start":
		return c09Start(c)
	case "keyvalue-base":
		return c09KeyvalueBase(c)
	}
	f, _ := compareQueryWithRef("C09", c, nil)
	return f
}

// c09Start: a path that starts from a variable or a literal returns what the
// same steps return from $ when the document is that value.
func c09Start(c Case) *Failure {
	chain := c.Extra["chain"]
	mt := c.Extra["mode"]
	pRoot, e1, _ := parseCached(mt + "$" + chain)
	pOther, e2, _ := parseCached(mt + c.Extra["head"] + chain)
	if e1 != nil || e2 != nil {
		return &Failure{Sig: "C09/parse", Expected: "both parse", Observed: fmt.Sprint(e1, e2)}
	}
	value := decodeTagged(c.Extra["value"], "float64")
	a := implQuery(pRoot, value, runCfg{})
	cfg := runCfg{}
	if c.Rule == "variable-start" {
		cfg.vars = map[string]any{"x": value}
	}
	b := implQuery(pOther, nil, cfg)
	same := a.Class == b.Class
	if same && a.Class == "ok" {
		if multiMember(value) {
			same = canonMultiset(a.Items) == canonMultiset(b.Items)
		} else {
			same = canonList(a.Items) == canonList(b.Items)
		}
	}
	if !same {
		return &Failure{Sig: "C09/" + c.Rule, Expected: "$" + chain + " on the value: " + a.String(), Observed: c.Extra["head"] + chain + ": " + b.String()}
	}
	return nil
}

// c09KeyvalueBase: the keyvalue base object is restored after a variable or a
// nested $ has been visited: ids of $.keyvalue() do not depend on what was
// evaluated before in the same path.
func c09KeyvalueBase(c Case) *Failure {
	doc := mustDoc(c.Doc, "float64")
	vars := map[string]any{"x": map[string]any{"k": float64(1)}}
	p1, e1, _ := parseCached(c.Path)
	p2, e2, _ := parseCached(c.Path2)
	if e1 != nil || e2 != nil {
		return &Failure{Sig: "C09/parse", Expected: "both parse", Observed: fmt.Sprint(e1, e2)}
	}
	a := implQuery(p1, doc, runCfg{vars: vars})
	b := implQuery(p2, doc, runCfg{vars: vars})
	if a.Class != b.Class || (a.Class == "ok" && fmt.Sprint(a.Items) != fmt.Sprint(b.Items)) {
		return &Failure{Sig: "C09/keyvalue-base-object-not-restored", Expected: c.Path + " => " + fmt.Sprint(a.Items, a.Class), Observed: c.Path2 + " => " + fmt.Sprint(b.Items, b.Class)}
	}
	return nil
}

func runC09(r *Run) {
	r.Rule("explicit-state exploration: for every document with <= K nodes and both modes, depth-first over every chain of <= L root-independent steps (35-step alphabet: keys, wildcards, subscripts with literal and last-relative bounds, .**{a to b}, all methods, filters whose condition mentions only @); state = item sequence the prefix produced, transition = one appended step executed by the real Query(P.s, d) and compared with the concatenation over the state's items x of the real Query($.s, x) (failing iff the prefix or one of those fails; strict steps after .** excluded; keyvalue ids masked); plus variable/literal starts, keyvalue base-object restoration, and register-restoration expressions against the reference model; non-trivial = transitions whose source state is non-empty; operands rooted in a variable whose steps mention the enclosing item ($x[@], $x[@.a], $x.a[@], $x[0 to @], $x[last-@], $x[*] ? (@ == $[0])) in 11 condition shapes under [*], [0 to last] and .* x 60 documents x 3 bindings of $x, against the reference")
	steps := c09Steps()
	texts := make([]string, len(steps))
	for i, s := range steps {
		texts[i] = s.stepText()
	}
	K, L := 4, 3
	if r.Thorough() {
		K, L = 4, 4
	}
	docs := makeDocs(Docs(K, stdScalars, stdKeys))
	r.Bound("max_doc_nodes", K)
	r.Bound("max_chain_length", L)
	r.Bound("step_alphabet", len(steps))
	r.Bound("documents", len(docs))
	var totalStates, totalTrans int64
	n := len(docs) * 2
	r.ParFor(n, func(i int) {
		if r.Expired() {
			r.Cap(fmt.Sprintf("internal deadline: exploration stopped at (document,mode) index %d of %d", i, n))
			return
		}
		d := docs[i/2]
		x := &c09Explorer{r: r, strict: i%2 == 1, steps: steps, texts: texts, maxLen: L, doc: d, unord: multiMember(d.f),
			cache: map[string]c09StepRes{}, states: map[string]struct{}{}, outcome: map[string]int64{}}
		x.states[canonList([]any{d.f})] = struct{}{}
		x.explore(nil, "", false, false)
		r.mu.Lock()
		totalStates += int64(len(x.states))
		totalTrans += x.trans
		for k, v := range x.outcome {
			r.outcomes["transition "+k] += v
		}
		r.mu.Unlock()
		r.Distinct(fmt.Sprintf("%s|%v", d.text, x.strict))
		if i%97 == 3 {
			r.Sample(map[string]any{"doc": d.text, "strict": x.strict, "states_reached": len(x.states), "transitions": x.trans})
		}
	})
	r.states.Add(totalStates)
	r.transitions.Add(totalTrans)
	r.distinctN.Store(totalTrans)

	// variable and literal starts
	var chains []string
	for _, e := range chainsOver(eRoot(), steps, 2, true) {
		var b strings.Builder
		for _, s := range e.Steps {
			b.WriteString(s.stepText())
		}
		chains = append(chains, b.String())
	}
	type start struct{ head, value, rule string }
	var starts []start
	for _, d := range docs {
		starts = append(starts, start{"$x", "j:" + d.text, "variable-start"})
	}
	starts = append(starts, start{`"a"`, `s:a`, "literal-start"}, start{`(1)`, `i:1`, "literal-start"}, start{`(1.5)`, `f:1.5`, "literal-start"},
		start{`true`, `j:true`, "literal-start"}, start{`null`, `j:null`, "literal-start"}, start{`(-2)`, `i:-2`, "literal-start"})
	r.Bound("start_chains", len(chains))
	r.ParFor(len(starts), func(i int) {
		s := starts[i]
		for _, ch := range chains {
			for _, mt := range []string{"", "strict "} {
				if mt != "" && strings.Contains(ch, ".**") {
					continue
				}
				if i := strings.Index(ch, ".keyvalue()"); i >= 0 && (strings.Contains(ch[i+1:], ".*") || strings.Contains(ch[i+11:], ".keyvalue()")) {
					continue // raw ids exposed
				}
				c := Case{Rule: s.rule, Path: mt + s.head + ch, Extra: map[string]string{"chain": ch, "head": s.head, "value": s.value, "mode": mt}}
				r.evals.Add(1)
				r.traces.Add(2)
				if f := c09Start(c); f != nil {
					r.Fail(c, f)
				}
			}
		}
	})
	// keyvalue base object
	kvDocs := []string{`{"a":1,"b":{"c":2}}`, `[{"a":{"c":1}},{"b":{"d":2}}]`}
	kvPairs := [][2]string{
		{`$.keyvalue().id`, `$ ? (exists($x.keyvalue())).keyvalue().id`},
		{`$[*].keyvalue().id`, `$[*] ? (exists($x.keyvalue().id)).keyvalue().id`},
		{`$.keyvalue().id`, `$ ? (exists($.keyvalue().value ? (@.type() == "object").keyvalue())).keyvalue().id`},
		{`$.keyvalue().id`, `$ ? ($x.keyvalue().id > 0).keyvalue().id`},
	}
	for _, d := range kvDocs {
		for _, pr := range kvPairs {
			c := Case{Rule: "keyvalue-base", Path: pr[0], Path2: pr[1], Doc: d}
			r.evals.Add(1)
			if f := c09KeyvalueBase(c); f != nil {
				r.Fail(c, f)
			}
		}
	}
	c09Registers(r)
	// every method followed by a further step, over the boundary number corpus in all three
	// representations and some strings: the step after a method applies to the method's result for every
	// input value (special cases of a method must not end the path)
	var mes []*Expr
	follow := [][]*Expr{{sMethod("type")}, {sMethod("string")}, {sMethod("abs")}, {sFilter(eCmp(">", eCur(), eInt(0)))}, {sMethod("double"), sMethod("type")}, {sIndex(sub1(eInt(0)))}, {sMethod("ceiling"), sMethod("string")}}
	for _, m := range []string{"abs", "floor", "ceiling", "double", "number", "integer", "bigint", "string", "boolean", "type", "size"} {
		for _, f := range follow {
			mes = append(mes, eVar("v", append([]*Expr{sMethod(m)}, f...)...))
			mes = append(mes, eNeg(eVar("v", sMethod(m))).withSteps(f...), eArith("+", eVar("v", sMethod(m)), eInt(0)).withSteps(f...))
		}
	}
	for _, f := range follow {
		mes = append(mes, eVar("v", append([]*Expr{sDecimal(nil, nil)}, f...)...), eVar("v", append([]*Expr{sDecimal(i64(20), i64(2))}, f...)...), eNeg(eVar("v")).withSteps(f...), ePos(eVar("v")).withSteps(f...))
	}
	var mcfgs []sweepCfg
	for _, v := range append(c13Corpus(false), "s:12", "s:-9223372036854775808", "s:1e400", "s:x", "s:true", "j:null", "j:true") {
		mcfgs = append(mcfgs, sweepCfg{Num: "float64", Vars: map[string]string{"v": v}})
	}
	r.Bound("method_then_step_paths", 2*len(mes))
	r.Bound("method_then_step_values", len(mcfgs))
	refSweep(r, "method-then-step-over-boundary-values", bothModes(mes), makeDocs([]any{nil}), mcfgs)
}

// c09Registers: expressions that use a binding again after a nested construct
// that rebinds it (@ after a nested filter, last after a nested subscript, $
// inside both), in all orders, against the reference model.
func c09Registers(r *Run) {
	idx := func(e ...*Expr) *Expr {
		subs := make([]Sub, len(e))
		for i, x := range e {
			subs[i] = sub1(x)
		}
		return sIndex(subs...)
	}
	nested := []*Expr{
		eRoot(idx(eInt(0)), idx(eLast())), eRoot(idx(eInt(1)), idx(eInt(0))), eRoot(idx(eLast()), idx(eLast())), eRoot(idx(eInt(0)), sMethod("size")),
		eRoot(idx(eLast()), idx(eInt(0))), eArith("-", eRoot(idx(eInt(0)), idx(eLast())), eInt(1)),
	}
	outer := []*Expr{eLast(), lastMinus(1), eInt(0)}
	var es []*Expr
	for _, n := range nested {
		for _, o := range outer {
			es = append(es, eRoot(idx(n, o)), eRoot(idx(o, n)), eRoot(sIndex(subR(n, o))), eRoot(sIndex(subR(o, n))),
				eRoot(idx(n, o), idx(eLast())), eRoot(idx(o), idx(n, eLast())))
		}
	}
	// $ inside filters inside subscripts, @ after nested filters
	es = append(es,
		eRoot(sAnyArray(), sFilter(eCmp("==", eCur(), eRoot(idx(eLast()))))),
		eRoot(sAnyArray(), sFilter(eAnd(eExists(eCur(sAnyArray(), sFilter(eCmp("==", eCur(), eRoot(idx(eInt(0)), idx(eInt(0))))))), eCmp("==", eCur(idx(eInt(0))), eRoot(idx(eInt(0)), idx(eInt(0))))))),
		eRoot(sAnyArray(), sFilter(eAnd(eCmp("==", eCur(idx(eInt(0))), eRoot(idx(eInt(0)), idx(eInt(0)))), eExists(eCur(sAnyArray(), sFilter(eCmp("==", eCur(), eRoot(idx(eInt(0)), idx(eInt(0)))))))))),
		eRoot(idx(eRoot(sAnyArray(), sFilter(eCmp("==", eCur(sMethod("size")), eInt(1))), idx(eInt(0))))),
		eRoot(idx(eArith("-", eLast(), eRoot(idx(eInt(0)), idx(eLast()))))),
	)
	elems := []any{float64(0), float64(1), float64(2), []any{}, []any{float64(0)}, []any{float64(1)}, []any{float64(2), float64(0)}, []any{float64(0), float64(1)}, []any{float64(1), float64(1), float64(0)}}
	var vals []any
	var rec func(prefix []any, n int)
	rec = func(prefix []any, n int) {
		if n == 0 {
			vals = append(vals, append([]any{}, prefix...))
			return
		}
		for _, e := range elems {
			rec(append(prefix, e), n-1)
		}
	}
	for n := 1; n <= 3; n++ {
		rec(nil, n)
	}
	// @ after a nested filter, in both operand orders, under && and ||, including nested
	// conditions that fail softly or with a non-suppressible error
	base := condBase()
	for i, a := range base {
		if i < 21 {
			continue
		}
		for _, b := range base {
			for _, pf := range []*Expr{eRoot(), eRoot(sAnyArray())} {
				es = append(es, pf.withSteps(sFilter(eAnd(a.e, b.e))), pf.withSteps(sFilter(eAnd(b.e, a.e))),
					pf.withSteps(sFilter(eOr(a.e, b.e))), pf.withSteps(sFilter(eOr(b.e, a.e))))
			}
		}
	}
	// the enclosing path's own step after a filter: its error is still raised (the suppression used for
	// the condition's operands must not leak), for every condition kind, with failing left/right operands
	for _, c := range base {
		for _, pf := range []*Expr{eRoot(), eRoot(sAnyArray())} {
			es = append(es, pf.withSteps(sFilter(c.e), sKey("zz")), pf.withSteps(sFilter(c.e), sKey("a"), sMethod("double")), pf.withSteps(sFilter(c.e), sIndex(sub1(eInt(5)))))
		}
	}
	for _, d := range Docs(3, stdScalars, stdKeys) {
		vals = append(vals, d)
	}
	vals = append(vals, mustDoc(`[{"a":1},{"a":1,"b":1}]`, "float64"), mustDoc(`[{"a":1,"b":1},{"a":1}]`, "float64"), mustDoc(`[{"a":"x","b":1},{"a":1,"b":1}]`, "float64"),
		mustDoc(`[{"a":["x"],"b":1},{"a":[0],"b":1}]`, "float64"), mustDoc(`[{"a":1},{"a":2,"b":1}]`, "float64"), mustDoc(`[{"a":2,"b":1},{"a":1}]`, "float64"), mustDoc(`{"a":[1,"x"],"b":2}`, "float64"))
	vals = append(vals, mustDoc(`{"a":{"a":1,"b":1},"b":1}`, "float64"), mustDoc(`[{"a":[1,2],"b":1},{"a":1,"b":2}]`, "float64"))
	// operands rooted in a variable whose steps mention the enclosing item: evaluated anew for every
	// item (the variable is constant, the chain below it is not)
	var ves []*Expr
	for _, chain := range [][]*Expr{{idx(eCur())}, {idx(eCur(sKey("a")))}, {sKey("a"), idx(eCur())}, {sIndex(subR(eInt(0), eCur()))}, {idx(eArith("-", eLast(), eCur()))},
		{sAnyArray(), sFilter(eCmp("==", eCur(), eRoot(idx(eInt(0)))))}} {
		v := eVar("x", chain...)
		for _, pf := range []*Expr{eRoot(sAnyArray()), eRoot(sIndex(subR(eInt(0), eLast()))), eRoot(sAnyKey())} {
			for k := int64(0); k <= 2; k++ {
				ves = append(ves, pf.withSteps(sFilter(eCmp("==", v, eInt(k)))), pf.withSteps(sFilter(eCmp("==", eInt(k), v))))
			}
			ves = append(ves, pf.withSteps(sFilter(eCmp("==", v, eCur()))), pf.withSteps(sFilter(eExists(v))), pf.withSteps(sFilter(eCmp("==", eArith("+", v, eInt(1)), eInt(2)))),
				pf.withSteps(sFilter(eAnd(eCmp(">", v, eInt(0)), eCmp("<", v, eInt(2))))), pf.withSteps(sFilter(eCmp("<", v, v))))
		}
		ves = append(ves, eRoot(idx(eVar("x", idx(eRoot(idx(eInt(0))))), eVar("x", idx(eRoot(idx(eInt(1))))))))
	}
	var vvals []any
	for _, a := range []any{float64(0), float64(1), float64(2), map[string]any{"a": float64(1)}, map[string]any{"a": float64(2)}} {
		for _, b := range []any{float64(0), float64(1), float64(2), map[string]any{"a": float64(0)}} {
			vvals = append(vvals, []any{a, b}, []any{a, b, a}, map[string]any{"a": a, "b": b})
		}
	}
	r.Bound("variable_rooted_paths", 2*len(ves))
	refSweep(r, "variable-rooted-operand-per-item", bothModes(ves), makeDocs(vvals), []sweepCfg{{Num: "float64", Vars: map[string]string{"x": `j:[2,0,1]`}},
		{Num: "float64", Vars: map[string]string{"x": `j:{"a":[1,0,2]}`}}, {Num: "number", Vars: map[string]string{"x": `j:[[0],1,2]`}}})
	// a step sequence that walks key/value pairs and fails on one of them, as a path of its own (silent
	// prefix semantics) and as an operand (suppressed inside the condition), failing member at each position
	kvv := []*Expr{sMethod("keyvalue"), sKey("value")}
	for _, m := range []string{"double", "integer", "abs"} {
		chain := append(append([]*Expr{}, kvv...), sMethod(m))
		for _, pf := range []*Expr{eRoot(), eRoot(sAnyArray()), eRoot(sKey("a"))} {
			es = append(es, pf.withSteps(chain...), pf.withSteps(sFilter(eCmp(">", eCur(chain...), eInt(0)))), pf.withSteps(sFilter(eExists(eCur(chain...)))),
				pf.withSteps(sFilter(eIsUnknown(eCmp(">", eCur(chain...), eInt(0))))), pf.withSteps(sFilter(eCmp("==", eArith("+", eCur(chain...), eInt(1)), eInt(2)))))
		}
	}
	for _, a := range []any{float64(1), "x", float64(-1)} {
		for _, b := range []any{float64(1), "x"} {
			for _, c := range []any{float64(1), "x"} {
				o := map[string]any{"a": a, "b": b, "c": c}
				vals = append(vals, o, []any{o, map[string]any{"a": c, "b": a}}, map[string]any{"a": o})
			}
		}
	}
	// the outer item used again inside a subscript / argument that follows a nested filter in the same operand
	for _, inner := range []*Expr{sFilter(eCmp(">", eCur(), eInt(0))), sFilter(eExists(eCur())), sFilter(eCmp("==", eCur(sKey("ok")), eTrue()))} {
		for _, tail := range [][]*Expr{{sIndex(sub1(eCur(sKey("i"))))}, {sKey("t"), sIndex(sub1(eCur(sKey("i"))))}, {sIndex(subR(eInt(0), eCur(sKey("i"))))}, {sFilter(eCmp("==", eCur(), eInt(6))), sIndex(sub1(eCur(sKey("i"))))}} {
			for _, head := range [][]*Expr{{sKey("a")}, {sKey("a"), sAnyArray()}} {
				op := eCur(append(append(append([]*Expr{}, head...), inner), tail...)...)
				for _, pf := range []*Expr{eRoot(sAnyArray()), eRoot()} {
					es = append(es, pf.withSteps(sFilter(eCmp("==", op, eInt(6)))), pf.withSteps(sFilter(eExists(op))), pf.withSteps(sFilter(eCmp("==", eCur(sKey("i")), op))),
						pf.withSteps(sFilter(eAnd(eExists(op), eCmp(">=", eCur(sKey("i")), eInt(0))))))
				}
			}
		}
	}
	for _, d := range []string{`[{"a":[5,6],"i":1},{"a":[7,6],"i":0}]`, `{"a":[5,6],"i":1}`, `[{"a":[[5,6]],"i":1},{"a":[{"ok":true,"t":[6,7]}],"i":0}]`, `{"a":[{"ok":true,"t":[5,6]},{"ok":false,"t":[6]}],"i":1}`, `[{"a":[6],"i":0},{"a":[0,6],"i":1}]`} {
		vals = append(vals, mustDoc(d, "float64"))
	}
	es = append(es, lastAfterFailingSubscript()...)
	vals = append(vals, mustDoc(`[[1,2],5,6,7]`, "float64"), mustDoc(`[[1,2,3],5]`, "float64"), mustDoc(`[[0],5,6]`, "float64"))
	r.Bound("register_paths", 2*len(es))
	r.Bound("register_documents", len(vals))
	refSweep(r, "register-restoration-vs-reference", bothModes(es), makeDocs(vals), []sweepCfg{{Num: "float64"}, {Num: "float64", Silent: true}})
}
