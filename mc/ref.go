package main

// E2: the reference model. A deliberately boring interpreter of abstract paths
// written from the documented SQL/JSON path rules (DESIGN.md Appendix A), in
// continuation-passing order so that "the items found before the failure" is
// defined. It never looks at the implementation's tree or code.

import (
	"encoding/json"
	"math"
	"math/big"
	"regexp"
	"sort"
	"strconv"
	"strings"
	"time"
)

type refErr struct {
	hard    bool
	msg     string
	invalid bool // emulation of a recorded defect only: the implementation returns ErrInvalid here
}

func soft(msg string) *refErr { return &refErr{hard: false, msg: msg} }
func hard(msg string) *refErr { return &refErr{hard: true, msg: msg} }

var errStop = &refErr{msg: "stop"} // early exit requested by the consumer

type tv int

const (
	tvF tv = iota
	tvT
	tvU
)

func (t tv) String() string { return [...]string{"false", "true", "unknown"}[t] }

type refCtx struct {
	strict bool
	root   any
	vars   map[string]any
	useTZ  bool
	zone   *time.Location

	cur      any
	lastIdx  int // lexical: n-1 of the innermost enclosing subscripted array
	dynLast  int // dynamic: n-1 of the array whose subscript is still being evaluated or continued
	ignoreSE bool

	// open behaviours met during this evaluation
	multiObj   bool   // a multi-member object was iterated (member order open)
	keyPerm    int    // which permutation of the sorted keys a wildcard follows (0 = sorted)
	maxObj     int    // the largest object a wildcard iterated
	inexactDiv bool   // an integer quotient was inexact (truncated vs exact both admissible)
	declined   string // non-empty: the reference declines to predict this case
	kvSeq      int
	quirk      string // emulate one recorded defect of the implementation (classification only)

	transitions int64
	visited     *[40 * 16 * 2]bool
}

func newRefCtx(strict bool, root any, vars map[string]any, useTZ bool, zone *time.Location) *refCtx {
	return &refCtx{strict: strict, root: root, vars: vars, useTZ: useTZ, zone: zone, cur: root, lastIdx: noLast, dynLast: noLast, ignoreSE: !strict}
}

func (c *refCtx) hasQuirk(q string) bool {
	return c.quirk != "" && strings.Contains(c.quirk, q)
}

func (c *refCtx) decline(why string) {
	if c.declined == "" {
		c.declined = why
	}
}

func itemKind(v any) int {
	switch v.(type) {
	case nil:
		return 0
	case bool:
		return 1
	case int64:
		return 2
	case float64:
		return 3
	case json.Number:
		return 4
	case string:
		return 5
	case []any:
		return 6
	case map[string]any:
		return 7
	case refDT:
		return 8 + int(v.(refDT).kind)
	}
	return 15
}

func (c *refCtx) visit(k Kind, item any) {
	c.transitions++
	if c.visited != nil {
		s := 0
		if c.strict {
			s = 1
		}
		c.visited[(int(k)*16+itemKind(item))*2+s] = true
	}
}

const noLast = -1 << 40 // LAST is not defined here

type emitFn func(any) *refErr

// eval evaluates e (head and steps) and hands every produced item to emit.
func (c *refCtx) eval(e *Expr, emit emitFn) *refErr {
	if len(e.Steps) == 0 {
		return c.head(e, emit)
	}
	return c.head(e, func(v any) *refErr { return c.steps(e.Steps, v, emit) })
}

func (c *refCtx) steps(steps []*Expr, v any, emit emitFn) *refErr {
	if len(steps) == 0 {
		return emit(v)
	}
	return c.step(steps[0], v, !c.strict, func(w any) *refErr { return c.steps(steps[1:], w, emit) })
}

// collect evaluates e into a sequence; with unwrap, array results are replaced
// by their elements (one level) in lax mode.
func (c *refCtx) collect(e *Expr, unwrap bool) ([]any, *refErr) {
	var out []any
	err := c.eval(e, func(v any) *refErr {
		if arr, ok := v.([]any); ok && unwrap && !c.strict {
			out = append(out, arr...)
		} else {
			out = append(out, v)
		}
		return nil
	})
	return out, err
}

func (c *refCtx) head(e *Expr, emit emitFn) *refErr {
	c.visit(e.K, nil)
	switch e.K {
	case KRoot:
		return emit(c.root)
	case KCurrent:
		return emit(c.cur)
	case KLast:
		if c.lastIdx == noLast {
			return hard("LAST outside of array subscript")
		}
		if c.lastIdx != c.dynLast {
			// lexically enclosing vs dynamically innermost array differ (a filter in the
			// continuation of a nested subscript): which one LAST denotes is left open
			c.decline("LAST evaluated in the continuation of a nested subscript")
		}
		return emit(int64(c.lastIdx))
	case KVar:
		v, ok := c.vars[e.S]
		if !ok {
			return hard("could not find jsonpath variable")
		}
		return emit(v)
	case KStr:
		return emit(e.S)
	case KInt:
		return emit(e.I)
	case KNum:
		return emit(e.F)
	case KTrue:
		return emit(true)
	case KFalse:
		return emit(false)
	case KNull:
		return emit(nil)
	case KNeg, KPos:
		seq, err := c.collect(e.A, true)
		if err != nil {
			return err
		}
		for _, v := range seq {
			n, ok := c.asNum(v)
			if !ok {
				return soft("operand of unary operator is not a numeric value")
			}
			var res any
			if e.K == KPos {
				res = n.value()
			} else {
				res = n.neg()
			}
			if err := emit(res); err != nil {
				return err
			}
		}
		return nil
	case KArith:
		l, err := c.collect(e.A, true)
		if err != nil {
			return err
		}
		if len(l) != 1 {
			return soft("left operand is not a single numeric value")
		}
		r, err := c.collect(e.B, true)
		if err != nil {
			return err
		}
		if len(r) != 1 {
			return soft("right operand is not a single numeric value")
		}
		ln, ok := c.asNum(l[0])
		if !ok {
			return soft("left operand is not a single numeric value")
		}
		rn, ok := c.asNum(r[0])
		if !ok {
			return soft("right operand is not a single numeric value")
		}
		res, aerr := c.arith(e.S, ln, rn)
		if aerr != nil {
			return aerr
		}
		return emit(res)
	}
	if e.K.isPredicate() {
		t, err := c.pred(e)
		if err != nil {
			return err
		}
		switch t {
		case tvT:
			return emit(true)
		case tvF:
			return emit(false)
		}
		return emit(nil)
	}
	panic("harness: ref head: unexpected kind")
}

// ---------- numbers ----------

type refNum struct {
	isInt bool
	i     int64
	f     float64
}

func (n refNum) value() any {
	if n.isInt {
		return n.i
	}
	return n.f
}

func (n refNum) float() float64 {
	if n.isInt {
		return float64(n.i)
	}
	return n.f
}

func (n refNum) rat() *big.Rat {
	if n.isInt {
		return new(big.Rat).SetInt64(n.i)
	}
	r, _ := new(big.Rat).SetString(strconv.FormatFloat(n.f, 'e', -1, 64))
	// exact value of the double
	r.SetFloat64(n.f)
	return r
}

func (n refNum) neg() any {
	if n.isInt {
		if n.i == math.MinInt64 {
			return -float64(n.i)
		}
		return -n.i
	}
	return -n.f
}

// asNum classifies a value as a number. A json.Number is an integer when its
// text is an int64 literal and a double otherwise.
func (c *refCtx) asNum(v any) (refNum, bool) {
	switch v := v.(type) {
	case refID:
		c.decline("the numeric value of a keyvalue id is used")
		return refNum{isInt: true, i: 1}, true
	case int64:
		return refNum{isInt: true, i: v}, true
	case float64:
		return refNum{f: v}, true
	case json.Number:
		if i, err := v.Int64(); err == nil {
			return refNum{isInt: true, i: i}, true
		}
		f, err := v.Float64()
		if err != nil || math.IsInf(f, 0) {
			c.decline("json.Number outside float64 range in a numeric context")
			return refNum{f: f}, true
		}
		return refNum{f: f}, true
	}
	return refNum{}, false
}

func isNumber(v any) bool {
	switch v.(type) {
	case int64, float64, json.Number, refID:
		return true
	}
	return false
}

func (c *refCtx) arith(op string, a, b refNum) (any, *refErr) {
	if (op == "/" || op == "%") && ((b.isInt && b.i == 0) || (!b.isInt && b.f == 0)) {
		return nil, soft("division by zero")
	}
	if a.isInt && b.isInt {
		x, y := big.NewInt(a.i), big.NewInt(b.i)
		z := new(big.Int)
		switch op {
		case "+":
			z.Add(x, y)
		case "-":
			z.Sub(x, y)
		case "*":
			z.Mul(x, y)
		case "/":
			rem := new(big.Int)
			z.QuoRem(x, y, rem)
			if rem.Sign() != 0 {
				c.inexactDiv = true
			}
		case "%":
			z.Rem(x, y)
		}
		if z.IsInt64() {
			return z.Int64(), nil
		}
		// exact result does not fit: the IEEE double result
	}
	x, y := a.float(), b.float()
	var f float64
	switch op {
	case "+":
		f = x + y
	case "-":
		f = x - y
	case "*":
		f = x * y
	case "/":
		f = x / y
	case "%":
		f = math.Mod(x, y)
	}
	if math.IsInf(f, 0) || math.IsNaN(f) {
		return nil, soft("numeric result out of range")
	}
	return f, nil
}

// ---------- predicates ----------

func (c *refCtx) operands(e *Expr, unwrap bool) (seq []any, unknown bool, herr *refErr) {
	seq, err := c.collect(e, unwrap)
	if err != nil {
		if err.hard {
			return nil, false, err
		}
		return nil, true, nil
	}
	return seq, false, nil
}

func (c *refCtx) pairs(l, r []any, f func(a, b any) (tv, *refErr)) (tv, *refErr) {
	anyU, anyT := false, false
	for _, a := range l {
		for _, b := range r {
			t, err := f(a, b)
			if err != nil {
				return tvU, err
			}
			switch t {
			case tvU:
				if c.strict {
					return tvU, nil
				}
				anyU = true
			case tvT:
				if !c.strict {
					return tvT, nil
				}
				anyT = true
			}
		}
	}
	switch {
	case anyT:
		return tvT, nil
	case anyU:
		return tvU, nil
	}
	return tvF, nil
}

func (c *refCtx) pred(e *Expr) (tv, *refErr) {
	c.visit(e.K, nil)
	switch e.K {
	case KCmp:
		l, u, err := c.operands(e.A, true)
		if err != nil || u {
			return tvU, err
		}
		r, u, err := c.operands(e.B, true)
		if err != nil || u {
			return tvU, err
		}
		return c.pairs(l, r, func(a, b any) (tv, *refErr) { return c.compare(e.S, a, b) })
	case KStartsWith:
		l, u, err := c.operands(e.A, true)
		if err != nil || u {
			return tvU, err
		}
		r, u, err := c.operands(e.B, false)
		if err != nil || u {
			return tvU, err
		}
		return c.pairs(l, r, func(a, b any) (tv, *refErr) {
			s, ok1 := a.(string)
			p, ok2 := b.(string)
			if !ok1 || !ok2 {
				return tvU, nil
			}
			if strings.HasPrefix(s, p) {
				return tvT, nil
			}
			return tvF, nil
		})
	case KLikeRegex:
		l, u, err := c.operands(e.A, true)
		if err != nil || u {
			return tvU, err
		}
		re := refRegexp(e.S, e.Flags)
		return c.pairs(l, []any{nil}, func(a, _ any) (tv, *refErr) {
			s, ok := a.(string)
			if !ok {
				return tvU, nil
			}
			if re.MatchString(s) {
				return tvT, nil
			}
			return tvF, nil
		})
	case KExists:
		if c.hasQuirk("unary-nonnumeric-exists-true") && !c.strict && (e.A.K == KNeg || e.A.K == KPos) && len(e.A.Steps) == 0 {
			// recorded defect: in existence mode unary +/- counts a non-numeric operand item as found
			seq, err := c.collect(e.A.A, true)
			if err != nil {
				if err.hard {
					return tvU, err
				}
				return tvU, nil
			}
			if len(seq) > 0 {
				return tvT, nil
			}
			return tvF, nil
		}
		found := false
		err := c.eval(e.A, func(any) *refErr {
			found = true
			if !c.strict {
				return errStop
			}
			return nil
		})
		if err == errStop {
			return tvT, nil
		}
		if err != nil {
			if err.hard {
				return tvU, err
			}
			return tvU, nil
		}
		if found {
			return tvT, nil
		}
		return tvF, nil
	case KAnd, KOr:
		decides := tvF
		if e.K == KOr {
			decides = tvT
		}
		l, lerr := c.pred(e.A)
		if lerr != nil {
			// which of {error, decided value} is reported when the other operand decides is open
			save := *c
			r, rerr := c.pred(e.B)
			if rerr == nil && r == decides {
				c.decline("hard error in one operand of a connective whose other operand decides")
			}
			tr := c.transitions
			*c = save
			c.transitions = tr
			return tvU, lerr
		}
		if l == decides {
			save := *c
			_, rerr := c.pred(e.B)
			declined, tr := c.declined, c.transitions
			*c = save
			c.transitions = tr
			if rerr != nil {
				c.decline("hard error in the short-circuited operand of a connective")
			} else if declined != "" {
				c.decline(declined)
			}
			return l, nil
		}
		r, rerr := c.pred(e.B)
		if rerr != nil {
			return tvU, rerr
		}
		if r == decides {
			return r, nil
		}
		if l == tvU || r == tvU {
			return tvU, nil
		}
		return l, nil // both equal the neutral value
	case KNot:
		t, err := c.pred(e.A)
		if err != nil {
			return tvU, err
		}
		switch t {
		case tvT:
			return tvF, nil
		case tvF:
			return tvT, nil
		}
		return tvU, nil
	case KIsUnknown:
		t, err := c.pred(e.A)
		if err != nil {
			if c.hasQuirk("isunknown-swallows-hard-error") {
				return tvT, nil
			}
			return tvU, err
		}
		if t == tvU {
			return tvT, nil
		}
		return tvF, nil
	}
	panic("harness: ref pred: not a predicate")
}

func applyOp(op string, cmp int) tv {
	var b bool
	switch op {
	case "==":
		b = cmp == 0
	case "!=", "<>":
		b = cmp != 0
	case "<":
		b = cmp < 0
	case "<=":
		b = cmp <= 0
	case ">":
		b = cmp > 0
	case ">=":
		b = cmp >= 0
	default:
		panic("harness: op " + op)
	}
	if b {
		return tvT
	}
	return tvF
}

func (c *refCtx) compare(op string, a, b any) (tv, *refErr) {
	if a == nil || b == nil {
		if a == nil && b == nil {
			return applyOp(op, 0), nil
		}
		if op == "!=" || op == "<>" {
			return tvT, nil
		}
		return tvF, nil
	}
	switch x := a.(type) {
	case bool:
		y, ok := b.(bool)
		if !ok {
			return tvU, nil
		}
		xi, yi := 0, 0
		if x {
			xi = 1
		}
		if y {
			yi = 1
		}
		return applyOp(op, xi-yi), nil
	case string:
		y, ok := b.(string)
		if !ok {
			return tvU, nil
		}
		return applyOp(op, strings.Compare(x, y)), nil
	case int64, float64, json.Number, refID:
		if !isNumber(b) {
			return tvU, nil
		}
		if _, ok := a.(refID); ok {
			c.decline("the numeric value of a keyvalue id is compared")
			return tvU, nil
		}
		if _, ok := b.(refID); ok {
			c.decline("the numeric value of a keyvalue id is compared")
			return tvU, nil
		}
		return applyOp(op, c.cmpNum(a, b)), nil
	case refDT:
		y, ok := b.(refDT)
		if !ok {
			if c.hasQuirk("datetime-vs-other-errinvalid") {
				return tvU, &refErr{hard: true, invalid: true, msg: "unrecognized SQL/JSON datetime type (recorded defect)"}
			}
			return tvU, nil
		}
		cmp, comparable, err := c.cmpDT(x, y)
		if err != nil {
			return tvU, err
		}
		if !comparable {
			return tvU, nil
		}
		return applyOp(op, cmp), nil
	}
	return tvU, nil // arrays, objects
}

// exactRat returns the mathematical value of a number (the decimal text for a
// json.Number, the exact binary value for a float64).
func exactRat(v any) (*big.Rat, bool) {
	switch v := v.(type) {
	case int64:
		return new(big.Rat).SetInt64(v), true
	case float64:
		if math.IsInf(v, 0) || math.IsNaN(v) {
			return nil, false
		}
		return new(big.Rat).SetFloat64(v), true
	case json.Number:
		r, ok := new(big.Rat).SetString(string(v))
		return r, ok
	}
	return nil, false
}

func (c *refCtx) cmpNum(a, b any) int {
	// A json.Number takes part with the value the numeric tower gives it: its
	// int64 value when it is an int64 literal, else its double.
	norm := func(v any) any {
		if n, ok := v.(json.Number); ok {
			rn, _ := c.asNum(n)
			return rn.value()
		}
		return v
	}
	x, _ := exactRat(norm(a))
	y, _ := exactRat(norm(b))
	if x == nil || y == nil {
		c.decline("non-finite number in comparison")
		return 0
	}
	return x.Cmp(y)
}

var regexCache = map[string]*regexp.Regexp{}

// refRegexp translates the flags as documented: i, s, m map to Go's flags, q
// quotes the pattern (and makes s and m irrelevant).
func refRegexp(pat, flags string) *regexp.Regexp {
	var f strings.Builder
	q := strings.Contains(flags, "q")
	if strings.Contains(flags, "i") {
		f.WriteByte('i')
	}
	if !q {
		if strings.Contains(flags, "s") {
			f.WriteByte('s')
		}
		if strings.Contains(flags, "m") {
			f.WriteByte('m')
		}
	}
	src := pat
	if q {
		src = regexp.QuoteMeta(pat)
	}
	if f.Len() > 0 {
		src = "(?" + f.String() + ")" + src
	}
	return regexp.MustCompile(src)
}

// ---------- steps ----------

func sortedKeys(m map[string]any) []string {
	keys := make([]string, 0, len(m))
	for k := range m {
		keys = append(keys, k)
	}
	sort.Strings(keys)
	return keys
}

// memberKeys: the order in which a wildcard visits the members of an object. Go map order is open, so
// the order is a parameter of the reference: permutation number c.keyPerm of the sorted keys (0 = sorted).
func (c *refCtx) memberKeys(m map[string]any) []string {
	keys := sortedKeys(m)
	if len(keys) > c.maxObj {
		c.maxObj = len(keys)
	}
	if c.keyPerm == 0 || len(keys) < 2 {
		return keys
	}
	// Lehmer decoding of keyPerm modulo n!
	n := len(keys)
	fact := 1
	for i := 2; i <= n && fact < 1<<20; i++ {
		fact *= i
	}
	p := c.keyPerm % fact
	rest := append([]string{}, keys...)
	out := make([]string, 0, n)
	for i := n; i >= 1; i-- {
		f := 1
		for j := 2; j < i; j++ {
			f *= j
		}
		idx := (p / f) % i
		p %= f
		out = append(out, rest[idx])
		rest = append(rest[:idx], rest[idx+1:]...)
	}
	return out
}

func (c *refCtx) structural(msg string) *refErr {
	if c.ignoreSE {
		return nil
	}
	return soft(msg)
}

func (c *refCtx) step(s *Expr, v any, unwrap bool, k emitFn) *refErr {
	c.visit(s.K, v)
	each := func(arr []any) *refErr {
		for _, el := range arr {
			if err := c.step(s, el, false, k); err != nil {
				return err
			}
		}
		return nil
	}
	switch s.K {
	case KKey:
		switch x := v.(type) {
		case map[string]any:
			if val, ok := x[s.S]; ok {
				return k(val)
			}
			return c.structural("JSON object does not contain key")
		case []any:
			if unwrap {
				return each(x)
			}
		}
		return c.structural("member accessor can only be applied to an object")
	case KAnyKey:
		switch x := v.(type) {
		case map[string]any:
			if len(x) >= 2 {
				c.multiObj = true
			}
			for _, key := range c.memberKeys(x) {
				if err := c.afterWildcard(x[key], k); err != nil {
					return err
				}
			}
			return nil
		case []any:
			if unwrap {
				return each(x)
			}
		}
		return c.structural("wildcard member accessor can only be applied to an object")
	case KAnyArray:
		if arr, ok := v.([]any); ok {
			for _, el := range arr {
				if err := k(el); err != nil {
					return err
				}
			}
			return nil
		}
		if !c.strict {
			return k(v)
		}
		return c.structural("wildcard array accessor can only be applied to an array")
	case KIndex:
		return c.index(s, v, k)
	case KAny:
		return c.anyStep(s, v, k)
	case KFilter:
		if arr, ok := v.([]any); ok && unwrap {
			return each(arr)
		}
		saved := c.cur
		c.cur = v
		t, err := c.pred(s.A)
		c.cur = saved
		if err != nil {
			return err
		}
		if t == tvT {
			return k(v)
		}
		return nil
	case KMethod:
		return c.method(s, v, unwrap, k, each)
	case KDecimal:
		if arr, ok := v.([]any); ok && unwrap {
			return each(arr)
		}
		return c.decimal(s, v, k)
	case KDT:
		if arr, ok := v.([]any); ok && unwrap {
			return each(arr)
		}
		return c.datetime(s, v, k)
	}
	panic("harness: ref step: not a step")
}

// afterWildcard hands one member value to the continuation. (Members reached
// through .* are passed on as they are; the next step unwraps them itself.)
func (c *refCtx) afterWildcard(v any, k emitFn) *refErr { return k(v) }

func (c *refCtx) subscriptValue(e *Expr) (int, *refErr) {
	seq, err := c.collect(e, false)
	if err != nil {
		return 0, err
	}
	if len(seq) != 1 {
		return 0, soft("array subscript is not a single numeric value")
	}
	n, ok := c.asNum(seq[0])
	if !ok {
		return 0, soft("array subscript is not a single numeric value")
	}
	var t float64
	if n.isInt {
		if n.i > math.MaxInt32 || n.i < math.MinInt32 {
			return 0, soft("array subscript is out of integer range")
		}
		return int(n.i), nil
	}
	t = math.Trunc(n.f)
	if math.IsNaN(t) || t > math.MaxInt32 || t < math.MinInt32 {
		return 0, soft("array subscript is out of integer range")
	}
	return int(t), nil
}

func (c *refCtx) index(s *Expr, v any, k emitFn) *refErr {
	arr, ok := v.([]any)
	if !ok {
		if c.strict {
			// (also below .**: only member accessors skip the nodes they do not apply to)
			return soft("array accessor can only be applied to an array")
		}
		arr = []any{v}
	}
	n := len(arr)
	savedLast, savedDyn := c.lastIdx, c.dynLast
	defer func() { c.lastIdx, c.dynLast = savedLast, savedDyn }()
	c.dynLast = n - 1
	for _, sub := range s.Subs {
		c.lastIdx = n - 1
		from, err := c.subscriptValue(sub.From)
		if err != nil {
			return err
		}
		to := from
		if sub.To != nil {
			c.lastIdx = n - 1
			to, err = c.subscriptValue(sub.To)
			if err != nil {
				return err
			}
		}
		if !c.ignoreSE && (from < 0 || from > to || to >= n) {
			return soft("array subscript is out of bounds")
		}
		if from < 0 {
			from = 0
		}
		if to >= n {
			to = n - 1
		}
		for i := from; i <= to; i++ {
			c.lastIdx = savedLast
			if arr[i] == nil && c.hasQuirk("subscript-drops-null") {
				continue
			}
			if err := k(arr[i]); err != nil {
				return err
			}
		}
	}
	return nil
}

func (c *refCtx) anyStep(s *Expr, v any, k emitFn) *refErr {
	inf := 1 << 30
	first, last := s.First, s.Last
	if first < 0 {
		first = inf
	}
	if last < 0 {
		last = inf
	}
	leavesOnly := first == inf && last == inf
	saved := c.ignoreSE
	c.ignoreSE = true
	defer func() { c.ignoreSE = saved }()
	if first == 0 {
		if err := k(v); err != nil {
			return err
		}
	}
	var walk func(v any, level int) *refErr
	walk = func(v any, level int) *refErr {
		if level > last {
			return nil
		}
		var children []any
		switch x := v.(type) {
		case map[string]any:
			if len(x) >= 2 {
				c.multiObj = true
			}
			for _, key := range c.memberKeys(x) {
				children = append(children, x[key])
			}
		case []any:
			children = x
		default:
			return nil
		}
		for _, ch := range children {
			_, isArr := ch.([]any)
			_, isObj := ch.(map[string]any)
			if level >= first || (leavesOnly && !isArr && !isObj) {
				c.transitions++
				if err := k(ch); err != nil {
					return err
				}
			}
			if level < last {
				if err := walk(ch, level+1); err != nil {
					return err
				}
			}
		}
		return nil
	}
	return walk(v, 1)
}

// ---------- entry points ----------

type refOut struct {
	items    []any
	err      *refErr
	declined string
	multiObj bool
	inexact  bool
	maxObj   int
}

func (o refOut) class() string {
	switch {
	case o.err == nil:
		return "ok"
	case o.err.invalid:
		return "invalid"
	case o.err.hard:
		return "hard"
	}
	return "soft"
}

// refQuery runs the complete evaluation and returns the items delivered before
// the first error together with that error.
func refQuery(p Path, c *refCtx) refOut {
	c.strict = p.Strict
	c.ignoreSE = !p.Strict
	var items []any
	err := c.eval(p.E, func(v any) *refErr { items = append(items, v); return nil })
	if items == nil {
		items = []any{}
	}
	return refOut{items: items, err: err, declined: c.declined, multiObj: c.multiObj, inexact: c.inexactDiv, maxObj: c.maxObj}
}

// refExists: the reference outcome of Exists. class: ok | soft | hard | null.
func refExists(p Path, c *refCtx, silent bool) (class string, val bool, declined string, multi bool) {
	c.strict = p.Strict
	c.ignoreSE = !p.Strict
	found := false
	var err *refErr
	if c.hasQuirk("unary-nonnumeric-exists-true") && !p.Strict && (p.E.K == KNeg || p.E.K == KPos) && len(p.E.Steps) == 0 {
		var seq []any
		seq, err = c.collect(p.E.A, true)
		found = len(seq) > 0
	} else {
		err = c.eval(p.E, func(any) *refErr {
			found = true
			if !p.Strict {
				return errStop
			}
			return nil
		})
		if err == errStop {
			err = nil
		}
	}
	declined, multi = c.declined, c.multiObj
	switch {
	case err == nil:
		return "ok", found, declined, multi
	case err.hard:
		return "hard", false, declined, multi
	case silent:
		return "null", false, declined, multi
	}
	return "soft", false, declined, multi
}
