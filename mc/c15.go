package main

// C15 — wildcards and recursive descent visit exactly the right nodes once.

import "fmt"

// relabel replaces scalar leaves by their pre-order index so that "exactly
// once" is decidable from the result.
func relabel(v any, ctr *int) any {
	switch x := v.(type) {
	case []any:
		out := make([]any, len(x))
		for i, e := range x {
			out[i] = relabel(e, ctr)
		}
		return out
	case map[string]any:
		out := map[string]any{}
		for _, k := range sortedKeys(x) {
			out[k] = relabel(x[k], ctr)
		}
		return out
	}
	*ctr++
	if *ctr%2 == 0 {
		return fmt.Sprintf("s%d", *ctr)
	}
	return float64(*ctr)
}

// relabelKinds: the same trees with leaves of every scalar kind in turn (null, booleans, numbers,
// strings): a leaf is a leaf whatever its kind.
func relabelKinds(v any, ctr *int) any {
	switch x := v.(type) {
	case []any:
		out := make([]any, len(x))
		for i, e := range x {
			out[i] = relabelKinds(e, ctr)
		}
		return out
	case map[string]any:
		out := map[string]any{}
		for _, k := range sortedKeys(x) {
			out[k] = relabelKinds(x[k], ctr)
		}
		return out
	}
	*ctr++
	switch *ctr % 5 {
	case 1:
		return nil
	case 2:
		return *ctr%2 == 0
	case 3:
		return float64(*ctr) + 0.5
	case 4:
		return ""
	}
	return false
}

func c15Docs(k int) []docEntry {
	raw := Docs(k, []any{float64(0)}, stdKeys)
	vals := make([]any, 0, 2*len(raw))
	for _, v := range raw {
		n := 0
		vals = append(vals, relabel(v, &n))
	}
	for _, v := range raw {
		n := 0
		vals = append(vals, relabelKinds(v, &n))
	}
	return makeDocs(vals)
}

// objectTrees: every tree of objects (keys a,b) and scalar leaves with exactly n nodes — deeper and
// wider object nesting than the general node bound reaches.
func objectTrees(n int, memo map[int][]any) []any {
	if v, ok := memo[n]; ok {
		return v
	}
	var out []any
	if n == 1 {
		out = []any{float64(0), map[string]any{}}
	} else {
		for _, v := range objectTrees(n-1, memo) { // one member
			out = append(out, map[string]any{"a": v})
		}
		for l := 1; l <= n-2; l++ { // two members
			for _, x := range objectTrees(l, memo) {
				for _, y := range objectTrees(n-1-l, memo) {
					out = append(out, map[string]any{"a": x, "b": y})
				}
			}
		}
	}
	memo[n] = out
	return out
}

func c15Paths() []Path {
	var heads []*Expr
	heads = append(heads, eRoot(sAnyKey()), eRoot(sAnyArray()), eRoot(sAny(0, -1)))
	levels := []int{0, 1, 2, 3, 4, -1}
	for _, a := range levels {
		heads = append(heads, eRoot(sAny(a, a)))
	}
	for _, a := range levels {
		for _, b := range levels {
			if a != b {
				heads = append(heads, eRoot(sAny(a, b)))
			}
		}
	}
	follow := []*Expr{sKey("a"), sIndex(sub1(eInt(0))), sMethod("type"), sAnyKey(), sAnyArray()}
	var es []*Expr
	for _, h := range heads {
		es = append(es, h)
		for _, f := range follow {
			es = append(es, h.withSteps(f))
		}
	}
	// two recursive-descent steps in a row (the second walks below every node the first delivers),
	// and a wildcard between them
	seconds := []*Expr{sAny(0, -1), sAny(1, 1), sAny(-1, -1), sAny(0, 1), sAny(1, -1), sAny(2, 2)}
	for _, a := range []*Expr{sAny(0, -1), sAny(0, 0), sAny(1, 1), sAny(2, 2), sAny(-1, -1), sAny(0, 1), sAny(1, 2), sAny(1, -1), sAnyKey(), sAnyArray()} {
		for _, b := range seconds {
			es = append(es, eRoot(a, b), eRoot(a, b, sAnyKey()), eRoot(a, sAnyKey(), b))
		}
	}
	return bothModes(es)
}

// c15Exists: the existence-only walk agrees with the collecting walk: Exists is true iff Query yields an item.
func c15Exists(c Case) *Failure {
	p, err, pan := parseCached(c.Path)
	if err != nil || pan != "" {
		return &Failure{Sig: "C15/parse", Expected: "parses", Observed: fmt.Sprint(err, pan)}
	}
	doc := mustDoc(c.Doc, "float64")
	q, e, f := implQuery(p, doc, runCfg{}), implExists(p, doc, runCfg{}), implFirst(p, doc, runCfg{})
	if q.Class != "ok" {
		return nil // compared with the reference elsewhere
	}
	if e.Class != "ok" || e.Bool != (len(q.Items) > 0) {
		return &Failure{Sig: "C15/exists-differs-from-query", Expected: fmt.Sprint(len(q.Items) > 0, " (Query: ", q.String(), ")"), Observed: e.String()}
	}
	if f.Class != "ok" || (len(q.Items) == 0 && f.Items[0] != nil) || (len(q.Items) > 0 && !containsCanon(q.Items, f.Items[0])) {
		return &Failure{Sig: "C15/first-differs-from-query", Expected: q.String(), Observed: f.String()}
	}
	return nil
}

func checkC15(c Case) *Failure {
	if c.Rule == "any-equivalences" {
		return checkC15Equiv(c)
	}
	if c.Rule == "exists-agrees-with-query" {
		return c15Exists(c)
	}
	f, _ := compareQueryWithRef("C15", c, nil)
	return f
}

// checkC15Equiv: .** == .**{0 to last} on the real implementation (relation between two executions).
func checkC15Equiv(c Case) *Failure {
	doc := mustDoc(c.Doc, c.Num)
	p1, e1, _ := parseCached(c.Path)
	p2, e2, _ := parseCached(c.Path2)
	if e1 != nil || e2 != nil {
		return &Failure{Sig: "C15/equiv-parse", Expected: "both parse", Observed: fmt.Sprint(e1, e2)}
	}
	o1, o2 := implQuery(p1, doc, runCfg{}), implQuery(p2, doc, runCfg{})
	if o1.Class != o2.Class || (o1.Class == "ok" && canonMultiset(o1.Items) != canonMultiset(o2.Items)) {
		return &Failure{Sig: "C15/equivalence/" + c.Path + "=" + c.Path2, Expected: o1.String(), Observed: o2.String()}
	}
	return nil
}

func runC15(r *Run) {
	r.Rule("every JSON tree with <= K nodes over {scalar, [], {}} with keys {a,b}, scalar leaves relabelled by pre-order index, x .*, [*], .**, .**{a}, .**{a to b} for a,b in {0..4,last}, each alone and followed by .a / [0] / .type() / .* / [*], x {lax,strict} x {float64,json.Number}; oracle: explicit tree walk (depth per node, document pre-order, multiset where a multi-member object is crossed), plus the relation .** == .**{0 to last} between two real executions; non-trivial = items or an error expected")
	K := 5
	if r.Thorough() {
		K = 7
	}
	docs := c15Docs(K)
	memo := map[int][]any{}
	var deep []any
	for n := K + 1; n <= K+4; n++ {
		for _, t := range objectTrees(n, memo) {
			ctr := 0
			deep = append(deep, relabel(t, &ctr))
			ctr = 0
			deep = append(deep, relabelKinds(t, &ctr))
		}
	}
	r.Bound("object_only_trees_up_to_nodes", K+4)
	docs = append(docs, makeDocs(deep)...)
	paths := c15Paths()
	r.Bound("max_tree_nodes", K)
	r.Bound("documents", len(docs))
	r.Bound("paths", len(paths))
	refSweep(r, "wildcards-vs-tree-walk", paths, docs, cfgsNum())
	// the existence-only walk (Exists, First) on the same paths, one third of the documents each
	r.ParFor(len(paths), func(i int) {
		text := paths[i].String()
		r.Note(i, text)
		for di := i % 3; di < len(docs); di += 3 {
			c := Case{Rule: "exists-agrees-with-query", Path: text, Doc: docs[di].text, Num: "float64"}
			r.evals.Add(1)
			r.traces.Add(3)
			if f := c15Exists(c); f != nil {
				r.Fail(c, f)
			}
		}
	})
	// equivalences
	pairs := [][2]string{{"$.**", "$.**{0 to last}"}, {"strict $.**", "strict $.**{0 to last}"}, {"$.**.a", "$.**{0 to last}.a"},
		{"strict $.**{1}", "strict $.**{1 to 1}"}, {"$.**{2}", "$.**{2 to 2}"}}
	r.ParFor(len(docs), func(i int) {
		for _, pr := range pairs {
			c := Case{Rule: "any-equivalences", Path: pr[0], Path2: pr[1], Doc: docs[i].text, Num: "float64"}
			r.evals.Add(1)
			if f := checkC15Equiv(c); f != nil {
				r.Fail(c, f)
			}
		}
	})
}
