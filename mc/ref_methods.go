package main

// Reference rules for item methods (C16) with math/big.

import (
	"encoding/json"
	"math"
	"math/big"
	"regexp"
	"strconv"
	"strings"
)

// refID stands for a keyvalue id: its numeric value is implementation-defined
// (address-derived), so the reference only predicts where ids appear.
type refID struct{}

func typeName(v any) string {
	switch x := v.(type) {
	case refID:
		return "number"
	case nil:
		return "null"
	case bool:
		return "boolean"
	case int64, float64, json.Number:
		return "number"
	case string:
		return "string"
	case []any:
		return "array"
	case map[string]any:
		return "object"
	case refDT:
		return x.typeName()
	}
	return "?"
}

var (
	reDecimalText = regexp.MustCompile(`^[+-]?(\d+\.?\d*([eE][+-]?\d+)?|\.\d+([eE][+-]?\d+)?)$`)
	reIntText     = regexp.MustCompile(`^[+-]?\d+$`)
	reInfNaN      = regexp.MustCompile(`(?i)^[+-]?(inf|infinity|nan)$`)
)

// numericInput turns the input of .double()/.number()/.decimal() into a double.
// ok=false: soft error. The reference declines strings whose acceptance the
// documentation leaves open (hex floats, underscores, surrounding blanks).
func (c *refCtx) numericInput(v any) (float64, *refErr) {
	switch x := v.(type) {
	case int64:
		return float64(x), nil
	case float64:
		return x, nil
	case json.Number:
		f, err := x.Float64()
		if err != nil {
			return 0, soft("number out of range for double precision")
		}
		return f, nil
	case string:
		if reInfNaN.MatchString(x) {
			return 0, soft("NaN or Infinity is not allowed")
		}
		if !reDecimalText.MatchString(x) {
			if _, err := strconv.ParseFloat(x, 64); err == nil {
				c.decline("numeric string in a form the documentation does not settle")
			}
			return 0, soft("argument is invalid for type double precision")
		}
		f, err := strconv.ParseFloat(x, 64)
		if err != nil { // range error
			return 0, soft("argument is out of range for type double precision")
		}
		return f, nil
	}
	return 0, soft("method can only be applied to a string or numeric value")
}

// roundHalfAway rounds r to an integer, ties away from zero.
func roundHalfAway(r *big.Rat) *big.Int {
	two := big.NewInt(2)
	num := new(big.Int).Mul(r.Num(), two)
	num.Add(num, new(big.Int).Mul(big.NewInt(int64(r.Sign())), r.Denom()))
	den := new(big.Int).Mul(r.Denom(), two)
	q := new(big.Int).Quo(num, den) // truncated toward zero
	return q
}

// integerInput implements .integer()/.bigint() input handling: the rounded
// integer value and whether the rounding hit an exact tie of a float64's decimal
// vs binary value (never for binary doubles: both views coincide for .5 ties).
func (c *refCtx) integerInput(v any, bits int) (int64, *refErr) {
	var z *big.Int
	switch x := v.(type) {
	case int64:
		z = big.NewInt(x)
	case float64:
		r, ok := exactRat(x)
		if !ok {
			return 0, soft("NaN or Infinity")
		}
		z = roundHalfAway(r)
	case json.Number:
		if i, err := x.Int64(); err == nil {
			z = big.NewInt(i)
		} else {
			f, err := x.Float64()
			if err != nil || math.IsInf(f, 0) {
				return 0, soft("argument is invalid for type integer")
			}
			r, _ := exactRat(f)
			z = roundHalfAway(r)
			// the decimal text may round differently from its double
			if rt, ok := new(big.Rat).SetString(string(x)); ok && roundHalfAway(rt).Cmp(z) != 0 {
				c.decline("json.Number whose decimal text and double round to different integers")
			}
		}
	case string:
		if !reIntText.MatchString(x) {
			if strings.TrimSpace(x) != x || reDecimalText.MatchString(x) {
				c.decline("integer string in a form the documentation does not settle")
			}
			return 0, soft("argument is invalid for type integer")
		}
		var ok bool
		z, ok = new(big.Int).SetString(x, 10)
		if !ok {
			return 0, soft("argument is invalid for type integer")
		}
	default:
		return 0, soft("method can only be applied to a string or numeric value")
	}
	lim := new(big.Int).Lsh(big.NewInt(1), uint(bits-1))
	if z.Cmp(lim) >= 0 || z.Cmp(new(big.Int).Neg(lim)) < 0 {
		return 0, soft("argument is out of range")
	}
	return z.Int64(), nil
}

var boolWords = map[string]bool{"t": true, "true": true, "y": true, "yes": true, "on": true, "1": true,
	"f": false, "false": false, "n": false, "no": false, "off": false, "0": false}

func (c *refCtx) method(s *Expr, v any, unwrap bool, k emitFn, each func([]any) *refErr) *refErr {
	switch s.S {
	case "type":
		return k(typeName(v))
	case "size":
		if arr, ok := v.([]any); ok {
			return k(int64(len(arr)))
		}
		if !c.strict {
			return k(int64(1))
		}
		if c.ignoreSE {
			c.decline(".size() of a non-array below .** in strict mode")
		}
		return soft(".size() can only be applied to an array")
	}
	if arr, ok := v.([]any); ok && unwrap {
		return each(arr)
	}
	if _, ok := v.(refID); ok {
		c.decline("a method applied to a raw keyvalue id")
	}
	switch s.S {
	case "double", "number":
		f, err := c.numericInput(v)
		if err != nil {
			return err
		}
		if math.IsInf(f, 0) || math.IsNaN(f) {
			return soft("NaN or Infinity is not allowed")
		}
		return k(f)
	case "integer":
		i, err := c.integerInput(v, 32)
		if err != nil {
			return err
		}
		return k(i)
	case "bigint":
		i, err := c.integerInput(v, 64)
		if err != nil {
			return err
		}
		return k(i)
	case "boolean":
		switch x := v.(type) {
		case bool:
			return k(x)
		case int64, float64, json.Number:
			n, _ := c.asNum(x)
			if !n.isInt && n.f != math.Trunc(n.f) {
				return soft("argument is invalid for type boolean")
			}
			return k(n.float() != 0)
		case string:
			b, ok := boolWords[strings.ToLower(x)]
			if !ok {
				if x != "" && x == strings.TrimSpace(x) {
					for w := range boolWords {
						if strings.HasPrefix(w, strings.ToLower(x)) {
							c.decline("abbreviated boolean word")
						}
					}
				} else if x != "" {
					c.decline("boolean word with surrounding blanks")
				}
				return soft("argument is invalid for type boolean")
			}
			return k(b)
		}
		return soft(".boolean() can only be applied to a boolean, string, or numeric value")
	case "string":
		switch x := v.(type) {
		case string:
			return k(x)
		case bool:
			if x {
				return k("true")
			}
			return k("false")
		case int64:
			return k(strconv.FormatInt(x, 10))
		case float64:
			return k(strconv.FormatFloat(x, 'f', -1, 64))
		case json.Number:
			if !regexp.MustCompile(`^-?(0|[1-9]\d*)(\.\d+)?$`).MatchString(string(x)) {
				c.decline(".string() of a json.Number not in plain decimal form")
			}
			return k(string(x))
		case refDT:
			return k(x.text())
		}
		return soft(".string() can only be applied to a boolean, string, numeric, or datetime value")
	case "abs", "floor", "ceiling":
		if jn, isJN := v.(json.Number); isJN {
			if _, e1 := jn.Int64(); e1 != nil {
				if f, e2 := jn.Float64(); e2 != nil || math.IsInf(f, 0) {
					return soft("number is outside the finite doubles") // an error rather than ±Inf
				}
			}
		}
		n, ok := c.asNum(v)
		if !ok {
			return soft("method can only be applied to a numeric value")
		}
		if n.isInt {
			if s.S == "abs" && n.i < 0 {
				return k(n.neg())
			}
			return k(n.i)
		}
		switch s.S {
		case "abs":
			return k(math.Abs(n.f))
		case "floor":
			return k(math.Floor(n.f))
		}
		return k(math.Ceil(n.f))
	case "keyvalue":
		obj, ok := v.(map[string]any)
		if !ok {
			return soft(".keyvalue() can only be applied to an object")
		}
		c.kvSeq++
		id := refID{}
		for _, key := range sortedKeys(obj) {
			if err := k(map[string]any{"key": key, "value": obj[key], "id": id}); err != nil {
				return err
			}
		}
		return nil
	}
	panic("harness: ref method " + s.S)
}

// decimalRound returns x rounded half away from zero to scale digits after the
// decimal point, as an exact rational.
func decimalRound(x *big.Rat, scale int) *big.Rat {
	pow := new(big.Int).Exp(big.NewInt(10), big.NewInt(int64(abs(scale))), nil)
	scaled := new(big.Rat).Set(x)
	if scale >= 0 {
		scaled.Mul(scaled, new(big.Rat).SetInt(pow))
	} else {
		scaled.Quo(scaled, new(big.Rat).SetInt(pow))
	}
	z := roundHalfAway(scaled)
	out := new(big.Rat).SetInt(z)
	if scale >= 0 {
		out.Quo(out, new(big.Rat).SetInt(pow))
	} else {
		out.Mul(out, new(big.Rat).SetInt(pow))
	}
	return out
}

func abs(i int) int {
	if i < 0 {
		return -i
	}
	return i
}

// decimalDigitsOK reports whether the rounded value fits NUMERIC(p,s): its
// absolute value is below 10^(p-s).
func decimalDigitsOK(r *big.Rat, p, s int) bool {
	a := new(big.Rat).Abs(r)
	e := p - s
	var lim *big.Rat
	if e >= 0 {
		lim = new(big.Rat).SetInt(new(big.Int).Exp(big.NewInt(10), big.NewInt(int64(e)), nil))
	} else {
		lim = new(big.Rat).SetFrac(big.NewInt(1), new(big.Int).Exp(big.NewInt(10), big.NewInt(int64(-e)), nil))
	}
	return a.Cmp(lim) < 0
}

// decimalAdmissible returns the admissible results of x.decimal(p,s) for the
// double x: the correctly rounded value of its exact binary value and of its
// shortest decimal text (they differ only on representation ties), each as the
// nearest double, or ok=false when the value must be rejected under that view.
type decOutcome struct {
	ok bool
	f  float64
}

func decimalOutcomes(x float64, p, s int) []decOutcome {
	var outs []decOutcome
	views := []*big.Rat{}
	if r, ok := exactRat(x); ok {
		views = append(views, r)
	}
	if r, ok := new(big.Rat).SetString(strconv.FormatFloat(x, 'f', -1, 64)); ok {
		views = append(views, r)
	}
	for _, v := range views {
		rr := decimalRound(v, s)
		if !decimalDigitsOK(rr, p, s) {
			outs = append(outs, decOutcome{ok: false})
			continue
		}
		f, _ := rr.Float64()
		if math.IsInf(f, 0) {
			// the rounded value has left the finite doubles: an error, never an infinity
			outs = append(outs, decOutcome{ok: false})
			continue
		}
		outs = append(outs, decOutcome{ok: true, f: f})
	}
	return outs
}

func (c *refCtx) decimal(s *Expr, v any, k emitFn) *refErr {
	f, err := c.numericInput(v)
	if err != nil {
		return err
	}
	if math.IsInf(f, 0) || math.IsNaN(f) {
		return soft("NaN or Infinity is not allowed")
	}
	if s.P == nil {
		return k(f)
	}
	p := *s.P
	if p > math.MaxInt32 || p < math.MinInt32 {
		c.decline("decimal precision outside int32: suppressible or not is open")
		return soft("precision out of integer range")
	}
	if p < 1 || p > 1000 {
		return hard("NUMERIC precision must be between 1 and 1000")
	}
	sc := int64(0)
	if s.Sc != nil {
		sc = *s.Sc
		if sc > math.MaxInt32 || sc < math.MinInt32 {
			c.decline("decimal scale outside int32: suppressible or not is open")
			return soft("scale out of integer range")
		}
		if sc < -1000 || sc > 1000 {
			return hard("NUMERIC scale must be between -1000 and 1000")
		}
	}
	outs := decimalOutcomes(f, int(p), int(sc))
	if len(outs) == 2 && outs[0] != outs[1] {
		c.decline("decimal rounding where the binary and shortest-decimal value differ")
	}
	if !outs[0].ok {
		return soft("argument is invalid for type numeric")
	}
	return k(outs[0].f)
}
