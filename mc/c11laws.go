package main

import (
	"fmt"
	"strings"
)

var c11Base = []string{
	`$.a == 1`, `$.a > 0`, `$.a == "a"`, `$.b == null`, `$.a == $.b`, `exists($.a)`, `exists($.b)`, `$[*] == 1`, `$[0] == 1`,
	`$.* == true`, `$ == 1`, `$ == "a"`, `$.a starts with "a"`, `$ like_regex "a"`, `$.a + 1 == 2`, `$[*] > $[0]`, `$.size() == 2`,
	`$.type() == "array"`, `exists($[*] ? (@ == 1))`, `$.a.b == 1`, `-$ == -1`, `$.a != 1`, `$[1] <= 1`, `$[*] != null`, `$.a.double() == 1`,
}

func c11Pool() []string {
	var out []string
	out = append(out, c11Base...)
	for _, b := range c11Base {
		out = append(out, "!("+b+")")
	}
	for _, b := range c11Base {
		out = append(out, "("+b+") is unknown")
	}
	return out
}

var c11FilterExtra = []string{
	`exists(@.a ? (@ == 1))`, `exists(@.a ? (@.x == $missing))`, `(exists(@.a ? (@.x == $missing))) is unknown`,
	`exists(@[*] ? (@ > "x"))`, `(exists(@.* ? (@ > $missing))) is unknown`, `@.b == 1`, `@.a.x == 1`,
	`exists(@.a ? (@.x == 1))`, `exists(@ ? (@.a.x == 1) ? (@.b == 1))`, `@.a ? (@.x > 0) == @.a`,
}

var c11FilterDocs = []string{`{"a":{"x":1},"b":1}`, `{"a":{"x":2},"b":1}`, `{"a":[{"x":1}],"b":1}`, `{"a":{"x":"s"},"b":2}`}

func c11FilterPool() []string {
	var out []string
	for _, b := range c11Pool() {
		out = append(out, strings.ReplaceAll(b, "$", "@"))
	}
	out = append(out, c11FilterExtra...)
	return out
}

func c11QueryText(mode, text, docText string) Out {
	prefix := ""
	if mode == "strict" {
		prefix = "strict "
	}
	p, err, pan := parseCached(prefix + text)
	if err != nil || pan != "" {
		return Out{Class: "parse-failure", Panic: fmt.Sprint(err, pan)}
	}
	return implQuery(p, mustDoc(docText, "float64"), runCfg{})
}

// c11Value evaluates a condition to T/F/U: ctx "top" = as a predicate check
// over $; ctx "filter" = as the condition of `$ ? (C)` over @ (kept -> T; else
// kept by `$ ? ((C) is unknown)` -> U; else F).
func c11Value(ctx, mode, pred, docText string) string {
	if ctx == "filter" {
		o := c11QueryText(mode, "$ ? ("+pred+")", docText)
		if o.Class != "ok" {
			return "err:" + o.Class
		}
		if len(o.Items) == 1 {
			return "T"
		}
		o = c11QueryText(mode, "$ ? (("+pred+") is unknown)", docText)
		if o.Class != "ok" {
			return "err:" + o.Class
		}
		if len(o.Items) == 1 {
			return "U"
		}
		return "F"
	}
	o := c11QueryText(mode, pred, docText)
	if o.Class != "ok" {
		return "err:" + o.Class
	}
	if len(o.Items) == 1 {
		switch o.Items[0] {
		case true:
			return "T"
		case false:
			return "F"
		case nil:
			return "U"
		}
	}
	return "bad:" + o.String()
}

func checkC11Law(c Case) *Failure {
	mode, p, q, doc, ctx := c.Extra["mode"], c.Path, c.Path2, c.Doc, c.Extra["ctx"]
	v := func(s string) string { return c11Value(ctx, mode, s, doc) }
	vp, vq := v(p), v(q)
	tri := func(s string) bool { return s == "T" || s == "F" || s == "U" }
	if !tri(vp) || !tri(vq) {
		if ctx == "filter" && (vp == "err:hard" || vq == "err:hard") {
			return nil // a condition with a non-suppressible error: covered by the truth tables
		}
		return &Failure{Sig: "C11/law/condition-not-three-valued", Expected: "T, F or U", Observed: vp + " / " + vq}
	}
	and, or := "("+p+") && ("+q+")", "("+p+") || ("+q+")"
	checks := []struct{ name, lhs, want string }{
		{"and-table", v(and), kleeneAnd(vp, vq)},
		{"or-table", v(or), kleeneOr(vp, vq)},
		{"and-commutes", v("(" + q + ") && (" + p + ")"), kleeneAnd(vp, vq)},
		{"or-commutes", v("(" + q + ") || (" + p + ")"), kleeneOr(vp, vq)},
		{"not-table", v("!(" + p + ")"), kleeneNot(vp)},
		{"double-negation", v("!(!(" + p + "))"), vp},
		{"de-morgan-and", v("!(" + and + ")"), v("(!(" + p + ")) || (!(" + q + "))")},
		{"de-morgan-or", v("!(" + or + ")"), v("(!(" + p + ")) && (!(" + q + "))")},
		{"is-unknown", v("(" + p + ") is unknown"), map[bool]string{true: "T", false: "F"}[vp == "U"]},
		{"is-unknown-of-and", v("(" + and + ") is unknown"), map[bool]string{true: "T", false: "F"}[kleeneAnd(vp, vq) == "U"]},
	}
	for _, ch := range checks {
		if ch.lhs != ch.want {
			return &Failure{Sig: "C11/law/" + ch.name + "/" + mode + "/" + ctx, Expected: fmt.Sprintf("%s with p=%s q=%s", ch.want, vp, vq), Observed: ch.lhs}
		}
	}
	return nil
}

func runC11Laws(r *Run) {
	K := 2
	if r.Thorough() {
		K = 3
	}
	r.Bound("law_max_doc_nodes", K)
	c11LawSweep(r, "top", c11Pool(), makeDocs(Docs(K, stdScalars, stdKeys)))
	var fdocs []any
	for _, d := range c11FilterDocs {
		fdocs = append(fdocs, mustDoc(d, "float64"))
	}
	for _, d := range Docs(K, stdScalars, stdKeys) {
		if _, isArr := d.([]any); !isArr { // a lax filter unwraps an array: @ would not be the document
			fdocs = append(fdocs, d)
		}
	}
	c11LawSweep(r, "filter", c11FilterPool(), makeDocs(fdocs))
}

func c11LawSweep(r *Run, ctx string, pool []string, docs []docEntry) {
	r.Bound("law_condition_pool_"+ctx, len(pool))
	r.Bound("law_documents_"+ctx, len(docs))
	n := len(pool) * len(pool)
	outcomes := map[string]int64{}
	r.ParFor(n, func(i int) {
		if r.Expired() {
			r.Cap(fmt.Sprintf("internal deadline: law sweep (%s) stopped at pair %d of %d", ctx, i, n))
			return
		}
		p, q := pool[i/len(pool)], pool[i%len(pool)]
		local := map[string]int64{}
		for _, d := range docs {
			for _, mode := range []string{"lax", "strict"} {
				c := Case{Rule: "law", Path: p, Path2: q, Doc: d.text, Extra: map[string]string{"mode": mode, "ctx": ctx}}
				r.evals.Add(1)
				r.traces.Add(13)
				r.transitions.Add(13)
				if f := checkC11Law(c); f != nil {
					r.Fail(c, f)
					continue
				}
				local[c11Value(ctx, mode, p, d.text)+c11Value(ctx, mode, q, d.text)]++
			}
		}
		r.Distinct(ctx + "|" + p + "|" + q)
		r.mu.Lock()
		for k, v := range local {
			outcomes[k] += v
		}
		r.mu.Unlock()
		if i%977 == 0 {
			r.Sample(map[string]string{"ctx": ctx, "p": p, "q": q})
		}
	})
	r.mu.Lock()
	for k, v := range outcomes {
		r.outcomes["law("+ctx+") operands "+k] += v
	}
	r.mu.Unlock()
}
