package main

// E4: refparse — an independent recursive-descent recogniser / tree builder for
// the documented jsonpath syntax (PostgreSQL jsonpath with JavaScript numeric
// and string-escape rules), producing the harness's abstract Path. It shares no
// code with the implementation's goyacc grammar or hand-written scanner.

import (
	"errors"
	"fmt"
	"math"
	"math/big"
	"regexp/syntax"
	"strconv"
	"strings"
	"unicode/utf8"

	"github.com/smasher164/xid"
)

type rtokKind int

const (
	rtEOF   rtokKind = iota
	rtIdent          // identifier or keyword (text unescaped in s)
	rtString
	rtVar
	rtInt
	rtNum
	rtPunct // s = the punctuation / operator text
)

type rtok struct {
	k       rtokKind
	s       string
	escaped bool // identifier written with escapes
	big     *big.Int
	f       float64
}

var errDecline = errors.New("refparse declines")

type rlexer struct {
	src     string
	pos     int
	toks    []rtok
	offsets []int // start offset of every token (and the end of input)
}

func (l *rlexer) lexWithOffsets() error { return l.lex() }

func isWS(r rune) bool { return r == ' ' || r == '\t' || r == '\n' || r == '\r' }

func isIdentStart(r rune) bool { return r == '_' || xid.Start(r) }
func isIdentCont(r rune) bool  { return r == '_' || xid.Continue(r) }

func hexVal(c byte) int {
	switch {
	case c >= '0' && c <= '9':
		return int(c - '0')
	case c >= 'a' && c <= 'f':
		return int(c-'a') + 10
	case c >= 'A' && c <= 'F':
		return int(c-'A') + 10
	}
	return -1
}

// scanEscape decodes one backslash escape starting after the backslash at l.pos.
func (l *rlexer) scanEscape(b *strings.Builder) error {
	if l.pos >= len(l.src) {
		return errors.New("unexpected end after backslash")
	}
	c := l.src[l.pos]
	switch c {
	case 'b':
		b.WriteByte('\b')
	case 'f':
		b.WriteByte('\f')
	case 'n':
		b.WriteByte('\n')
	case 'r':
		b.WriteByte('\r')
	case 't':
		b.WriteByte('\t')
	case 'v':
		b.WriteByte('\v')
	case 'x':
		if l.pos+2 >= len(l.src) || hexVal(l.src[l.pos+1]) < 0 || hexVal(l.src[l.pos+2]) < 0 {
			return errors.New("invalid hexadecimal character sequence")
		}
		v := hexVal(l.src[l.pos+1])*16 + hexVal(l.src[l.pos+2])
		if v == 0 {
			return errors.New("\\x00 is not allowed")
		}
		b.WriteRune(rune(v))
		l.pos += 3
		return nil
	case 'u':
		l.pos++
		r, err := l.scanUnicode()
		if err != nil {
			return err
		}
		if r >= 0xD800 && r <= 0xDBFF {
			// high surrogate: must be followed by \uDC00..\uDFFF
			if l.pos+1 < len(l.src) && l.src[l.pos] == '\\' && l.src[l.pos+1] == 'u' {
				l.pos += 2
				r2, err := l.scanUnicode()
				if err != nil {
					return err
				}
				if r2 < 0xDC00 || r2 > 0xDFFF {
					return errors.New("Unicode low surrogate must follow a high surrogate")
				}
				b.WriteRune(0x10000 + (r-0xD800)<<10 + (r2 - 0xDC00))
				return nil
			}
			return errors.New("Unicode low surrogate must follow a high surrogate")
		}
		if r >= 0xDC00 && r <= 0xDFFF {
			return errors.New("Unicode low surrogate must follow a high surrogate")
		}
		if r > 0x10FFFF {
			return errDecline
		}
		b.WriteRune(r)
		return nil
	default:
		r, w := utf8.DecodeRuneInString(l.src[l.pos:])
		if r == utf8.RuneError && w <= 1 {
			return errors.New("invalid UTF-8")
		}
		if r == 0 {
			return errors.New("NUL")
		}
		b.WriteRune(r)
		l.pos += w
		return nil
	}
	l.pos++
	return nil
}

// scanUnicode parses NNNN or {N...} after "\u"; l.pos is just past the 'u'.
func (l *rlexer) scanUnicode() (rune, error) {
	bad := errors.New("invalid Unicode escape sequence")
	if l.pos < len(l.src) && l.src[l.pos] == '{' {
		l.pos++
		v, n := 0, 0
		for l.pos < len(l.src) && l.src[l.pos] != '}' {
			h := hexVal(l.src[l.pos])
			if h < 0 || n == 6 {
				return 0, bad
			}
			v = v*16 + h
			n++
			l.pos++
		}
		if l.pos >= len(l.src) || n == 0 {
			return 0, bad
		}
		l.pos++ // }
		if v == 0 {
			return 0, errors.New("\\u0000 cannot be converted to text")
		}
		return rune(v), nil
	}
	if l.pos+4 > len(l.src) {
		return 0, bad
	}
	v := 0
	for i := 0; i < 4; i++ {
		h := hexVal(l.src[l.pos+i])
		if h < 0 {
			return 0, bad
		}
		v = v*16 + h
	}
	l.pos += 4
	if v == 0 {
		return 0, errors.New("\\u0000 cannot be converted to text")
	}
	return rune(v), nil
}

func (l *rlexer) scanString() (string, error) {
	var b strings.Builder
	for {
		if l.pos >= len(l.src) {
			return "", errors.New("literal not terminated")
		}
		r, w := utf8.DecodeRuneInString(l.src[l.pos:])
		switch {
		case r == utf8.RuneError && w <= 1:
			return "", errors.New("invalid UTF-8")
		case r == 0:
			return "", errors.New("NUL")
		case r == '\n':
			return "", errors.New("literal not terminated")
		case r == '"':
			l.pos++
			return b.String(), nil
		case r == '\\':
			l.pos++
			if err := l.scanEscape(&b); err != nil {
				return "", err
			}
		default:
			b.WriteRune(r)
			l.pos += w
		}
	}
}

// digitsRun scans digits of the base with '_' separators allowed only between digits.
func (l *rlexer) digitsRun(base int) (string, error) {
	start := l.pos
	var clean strings.Builder
	prevDigit := false
	for l.pos < len(l.src) {
		c := l.src[l.pos]
		if c == '_' {
			if !prevDigit {
				return "", errors.New("'_' must separate successive digits")
			}
			prevDigit = false
			l.pos++
			continue
		}
		var ok bool
		switch base {
		case 16:
			ok = hexVal(c) >= 0
		default:
			ok = c >= '0' && c <= '9'
			if ok && int(c-'0') >= base {
				// a decimal digit not valid in this base
				return "", errors.New("invalid digit")
			}
		}
		if !ok {
			break
		}
		clean.WriteByte(c)
		prevDigit = true
		l.pos++
	}
	if l.pos > start && !prevDigit {
		return "", errors.New("'_' must separate successive digits")
	}
	return clean.String(), nil
}

func (l *rlexer) scanNumber() (rtok, error) {
	junk := errors.New("trailing junk after numeric literal")
	src := l.src
	isNum := false
	var mant strings.Builder
	if src[l.pos] != '.' {
		if src[l.pos] == '0' && l.pos+1 < len(src) {
			base := 0
			switch src[l.pos+1] {
			case 'x', 'X':
				base = 16
			case 'o', 'O':
				base = 8
			case 'b', 'B':
				base = 2
			}
			if base != 0 {
				l.pos += 2
				if l.pos < len(src) && src[l.pos] == '_' {
					return rtok{}, errors.New("underscore disallowed at start of numeric literal")
				}
				ds, err := l.digitsRun(base)
				if err != nil {
					return rtok{}, err
				}
				if ds == "" {
					return rtok{}, junk
				}
				if err := l.noJunk(); err != nil {
					return rtok{}, err
				}
				v, _ := new(big.Int).SetString(ds, base)
				return rtok{k: rtInt, big: v}, nil
			}
			// a lone 0 may not be followed by another digit or '_'
			if c := src[l.pos+1]; (c >= '0' && c <= '9') || c == '_' {
				return rtok{}, junk
			}
		}
		ds, err := l.digitsRun(10)
		if err != nil {
			return rtok{}, err
		}
		mant.WriteString(ds)
	}
	if l.pos < len(src) && src[l.pos] == '.' {
		isNum = true
		l.pos++
		mant.WriteByte('.')
		if l.pos < len(src) && src[l.pos] == '_' {
			return rtok{}, errors.New("'_' must separate successive digits")
		}
		ds, err := l.digitsRun(10)
		if err != nil {
			return rtok{}, err
		}
		mant.WriteString(ds)
	}
	if l.pos < len(src) && (src[l.pos] == 'e' || src[l.pos] == 'E') {
		isNum = true
		l.pos++
		mant.WriteByte('e')
		if l.pos < len(src) && (src[l.pos] == '+' || src[l.pos] == '-') {
			mant.WriteByte(src[l.pos])
			l.pos++
		}
		if l.pos < len(src) && src[l.pos] == '_' {
			return rtok{}, errors.New("'_' must separate successive digits")
		}
		ds, err := l.digitsRun(10)
		if err != nil {
			return rtok{}, err
		}
		if ds == "" {
			return rtok{}, errors.New("exponent has no digits")
		}
		mant.WriteString(ds)
	}
	if err := l.noJunk(); err != nil {
		return rtok{}, err
	}
	text := mant.String()
	if !isNum {
		v, ok := new(big.Int).SetString(text, 10)
		if !ok {
			return rtok{}, junk
		}
		return rtok{k: rtInt, big: v}, nil
	}
	if strings.HasPrefix(text, ".") {
		text = "0" + text
	}
	text = strings.Replace(text, ".e", ".0e", 1)
	if strings.HasSuffix(text, ".") {
		text += "0"
	}
	f, err := strconv.ParseFloat(text, 64)
	if err != nil {
		// beyond the double range: a faithful implementation must reject or keep the value; undecided
		return rtok{}, errDecline
	}
	return rtok{k: rtNum, f: f}, nil
}

func (l *rlexer) noJunk() error {
	if l.pos < len(l.src) {
		r, _ := utf8.DecodeRuneInString(l.src[l.pos:])
		if isIdentStart(r) || r == '\\' || (r >= '0' && r <= '9') {
			return errors.New("trailing junk after numeric literal")
		}
	}
	return nil
}

func (l *rlexer) lex() error {
	src := l.src
	for {
		// whitespace and comments
		for l.pos < len(src) {
			r, w := utf8.DecodeRuneInString(src[l.pos:])
			if isWS(r) {
				l.pos += w
				continue
			}
			if r == '/' && l.pos+1 < len(src) && src[l.pos+1] == '*' {
				end := strings.Index(src[l.pos+2:], "*/")
				body := src[l.pos+2:]
				if end >= 0 {
					body = body[:end]
				}
				if strings.ContainsRune(body, 0) || !utf8.ValidString(body) {
					return errors.New("NUL or invalid UTF-8 in comment")
				}
				if end < 0 {
					return errors.New("unexpected end of comment")
				}
				l.pos += 2 + end + 2
				continue
			}
			break
		}
		l.offsets = append(l.offsets, l.pos)
		if l.pos >= len(src) {
			l.toks = append(l.toks, rtok{k: rtEOF})
			return nil
		}
		r, w := utf8.DecodeRuneInString(src[l.pos:])
		switch {
		case r == utf8.RuneError && w <= 1:
			return errors.New("invalid UTF-8")
		case r == 0:
			return errors.New("NUL")
		case r == '\f' || r == '\v':
			return errDecline // whether these are white space is not settled by the documentation
		case r == '"':
			l.pos++
			s, err := l.scanString()
			if err != nil {
				return err
			}
			l.toks = append(l.toks, rtok{k: rtString, s: s})
		case r == '$':
			l.pos++
			if l.pos < len(src) && src[l.pos] == '"' {
				l.pos++
				s, err := l.scanString()
				if err != nil {
					return err
				}
				l.toks = append(l.toks, rtok{k: rtVar, s: s})
				break
			}
			start := l.pos
			for l.pos < len(src) {
				r2, w2 := utf8.DecodeRuneInString(src[l.pos:])
				if r2 == utf8.RuneError && w2 <= 1 {
					return errors.New("invalid UTF-8")
				}
				if !xid.Continue(r2) {
					break
				}
				l.pos += w2
			}
			if l.pos > start {
				l.toks = append(l.toks, rtok{k: rtVar, s: src[start:l.pos]})
			} else {
				l.toks = append(l.toks, rtok{k: rtPunct, s: "$"})
			}
		case r >= '0' && r <= '9', r == '.' && l.pos+1 < len(src) && src[l.pos+1] >= '0' && src[l.pos+1] <= '9':
			t, err := l.scanNumber()
			if err != nil {
				return err
			}
			l.toks = append(l.toks, t)
		case isIdentStart(r) || r == '\\':
			var b strings.Builder
			escaped := false
			first := true
			for l.pos < len(src) {
				r2, w2 := utf8.DecodeRuneInString(src[l.pos:])
				if r2 == utf8.RuneError && w2 <= 1 {
					return errors.New("invalid UTF-8")
				}
				if r2 == '\\' {
					escaped = true
					l.pos++
					if err := l.scanEscape(&b); err != nil {
						return err
					}
				} else if (first && isIdentStart(r2)) || (!first && isIdentCont(r2)) {
					b.WriteRune(r2)
					l.pos += w2
				} else {
					break
				}
				first = false
			}
			l.toks = append(l.toks, rtok{k: rtIdent, s: b.String(), escaped: escaped})
		default:
			two := ""
			if l.pos+1 < len(src) {
				two = src[l.pos : l.pos+2]
			}
			switch two {
			case "==", "!=", "<>", "<=", ">=", "&&", "||", "**":
				l.toks = append(l.toks, rtok{k: rtPunct, s: two})
				l.pos += 2
			default:
				if strings.ContainsRune("()[]{},.?@*+-/%<>!=&|", r) {
					l.toks = append(l.toks, rtok{k: rtPunct, s: string(r)})
					l.pos++
				} else {
					return fmt.Errorf("unexpected character %q", r)
				}
			}
		}
	}
}

// ---------- parser ----------

type rparser struct {
	toks []rtok
	i    int
}

type rnode struct {
	e         *Expr
	pred      bool
	delimited bool // a predicate in the form "( predicate )" or "exists ( expr )"
}

func (p *rparser) peek() rtok { return p.toks[p.i] }
func (p *rparser) next() rtok { t := p.toks[p.i]; p.i++; return t }
func (p *rparser) isPunct(s string) bool {
	t := p.peek()
	return t.k == rtPunct && t.s == s
}
func (p *rparser) isKW(kw string) bool {
	t := p.peek()
	if t.k != rtIdent {
		return false
	}
	switch kw {
	case "true", "false", "null":
		return t.s == kw
	}
	return strings.EqualFold(t.s, kw)
}
func (p *rparser) expectPunct(s string) error {
	if !p.isPunct(s) {
		return fmt.Errorf("syntax error: expected %q", s)
	}
	p.i++
	return nil
}

var errSyntax = errors.New("syntax error")

func refParse(text string) (Path, error) {
	if !utf8.ValidString(text) {
		return Path{}, errors.New("invalid UTF-8")
	}
	l := &rlexer{src: text}
	if err := l.lex(); err != nil {
		return Path{}, err
	}
	for _, t := range l.toks {
		if t.k == rtIdent && t.escaped && isKeyword(t.s) {
			return Path{}, errDecline // a keyword spelled with escapes
		}
	}
	p := &rparser{toks: l.toks}
	out := Path{}
	if p.isKW("strict") {
		p.i++
		out.Strict = true
	} else if p.isKW("lax") {
		p.i++
	}
	n, err := p.parseOr()
	if err != nil {
		return Path{}, err
	}
	if p.peek().k != rtEOF {
		return Path{}, errSyntax
	}
	out.E = n.e
	if err := validatePlacement(n.e, 0, false); err != nil {
		return Path{}, err
	}
	return out, nil
}

func (p *rparser) parseOr() (rnode, error) {
	l, err := p.parseAnd()
	if err != nil {
		return l, err
	}
	for p.isPunct("||") {
		p.i++
		r, err := p.parseAnd()
		if err != nil {
			return r, err
		}
		if !l.pred || !r.pred {
			return l, errSyntax
		}
		l = rnode{e: eOr(l.e, r.e), pred: true}
	}
	return l, nil
}

func (p *rparser) parseAnd() (rnode, error) {
	l, err := p.parseNot()
	if err != nil {
		return l, err
	}
	for p.isPunct("&&") {
		p.i++
		r, err := p.parseNot()
		if err != nil {
			return r, err
		}
		if !l.pred || !r.pred {
			return l, errSyntax
		}
		l = rnode{e: eAnd(l.e, r.e), pred: true}
	}
	return l, nil
}

func (p *rparser) parseNot() (rnode, error) {
	if p.isPunct("!") {
		p.i++
		// must be followed by a delimited predicate: "( predicate )" or "exists ( expr )"
		n, err := p.parsePostfix()
		if err != nil {
			return n, err
		}
		if !n.pred || !n.delimited {
			return n, errSyntax
		}
		return rnode{e: eNot(n.e), pred: true}, nil
	}
	return p.parseCmp()
}

var cmpOpSet = map[string]string{"==": "==", "!=": "!=", "<>": "!=", "<": "<", "<=": "<=", ">": ">", ">=": ">="}

func (p *rparser) parseCmp() (rnode, error) {
	l, err := p.parseAdd()
	if err != nil {
		return l, err
	}
	t := p.peek()
	switch {
	case t.k == rtPunct && cmpOpSet[t.s] != "":
		p.i++
		r, err := p.parseAdd()
		if err != nil {
			return r, err
		}
		if l.pred || r.pred {
			return l, errSyntax
		}
		return rnode{e: eCmp(cmpOpSet[t.s], l.e, r.e), pred: true}, nil
	case p.isKW("starts"):
		if l.pred {
			return l, errSyntax
		}
		p.i++
		if !p.isKW("with") {
			return l, errSyntax
		}
		p.i++
		a := p.next()
		switch a.k {
		case rtString:
			return rnode{e: eStartsWith(l.e, eStr(a.s)), pred: true}, nil
		case rtVar:
			return rnode{e: eStartsWith(l.e, eVar(a.s)), pred: true}, nil
		}
		return l, errSyntax
	case p.isKW("like_regex"):
		if l.pred {
			return l, errSyntax
		}
		p.i++
		pat := p.next()
		if pat.k != rtString {
			return l, errSyntax
		}
		flags := ""
		if p.isKW("flag") {
			p.i++
			f := p.next()
			if f.k != rtString {
				return l, errSyntax
			}
			flags = f.s
		}
		if err := refValidateRegex(pat.s, flags); err != nil {
			return l, err
		}
		return rnode{e: eLikeRegex(l.e, pat.s, normFlags(flags)), pred: true}, nil
	}
	return l, nil
}

func normFlags(flags string) string {
	var b strings.Builder
	for _, f := range "ismxq" {
		if strings.ContainsRune(flags, f) {
			b.WriteRune(f)
		}
	}
	return b.String()
}

func refValidateRegex(pat, flags string) error {
	for _, f := range flags {
		if !strings.ContainsRune("ismxq", f) {
			return errors.New("unrecognized flag character")
		}
	}
	q := strings.Contains(flags, "q")
	if strings.Contains(flags, "x") && !q {
		return errors.New("XQuery x flag is not implemented")
	}
	fl := syntax.OneLine | syntax.ClassNL | syntax.PerlX
	if strings.Contains(flags, "i") {
		fl |= syntax.FoldCase
	}
	if q {
		fl |= syntax.Literal
	} else {
		if strings.Contains(flags, "m") {
			fl &^= syntax.OneLine
		}
		if strings.Contains(flags, "s") {
			fl |= syntax.DotNL
		}
	}
	if _, err := syntax.Parse(pat, fl); err != nil {
		return err
	}
	return nil
}

func (p *rparser) parseAdd() (rnode, error) {
	l, err := p.parseMul()
	if err != nil {
		return l, err
	}
	for p.isPunct("+") || p.isPunct("-") {
		op := p.next().s
		r, err := p.parseMul()
		if err != nil {
			return r, err
		}
		if l.pred || r.pred {
			return l, errSyntax
		}
		l = rnode{e: eArith(op, l.e, r.e)}
	}
	return l, nil
}

func (p *rparser) parseMul() (rnode, error) {
	l, err := p.parseUnary()
	if err != nil {
		return l, err
	}
	for p.isPunct("*") || p.isPunct("/") || p.isPunct("%") {
		op := p.next().s
		r, err := p.parseUnary()
		if err != nil {
			return r, err
		}
		if l.pred || r.pred {
			return l, errSyntax
		}
		l = rnode{e: eArith(op, l.e, r.e)}
	}
	return l, nil
}

func (p *rparser) parseUnary() (rnode, error) {
	if p.isPunct("+") || p.isPunct("-") {
		op := p.next().s
		n, err := p.parseUnary()
		if err != nil {
			return n, err
		}
		if n.pred {
			return n, errSyntax
		}
		if op == "-" {
			return rnode{e: eNeg(n.e)}, nil
		}
		return rnode{e: ePos(n.e)}, nil
	}
	return p.parsePostfix()
}

func (p *rparser) atAccessor() bool {
	return p.isPunct(".") || p.isPunct("[") || p.isPunct("?")
}

func (p *rparser) parsePostfix() (rnode, error) {
	t := p.peek()
	var head *Expr
	switch {
	case t.k == rtPunct && t.s == "(":
		p.i++
		inner, err := p.parseOr()
		if err != nil {
			return inner, err
		}
		if err := p.expectPunct(")"); err != nil {
			return inner, err
		}
		if inner.pred {
			if p.isKW("is") {
				p.i++
				if !p.isKW("unknown") {
					return inner, errSyntax
				}
				p.i++
				return rnode{e: eIsUnknown(inner.e), pred: true}, nil
			}
			if !p.atAccessor() {
				return rnode{e: inner.e, pred: true, delimited: true}, nil
			}
		} else if !p.atAccessor() {
			return rnode{e: inner.e}, nil
		}
		head = inner.e
	case p.isKW("exists") && p.toks[p.i+1].k == rtPunct && p.toks[p.i+1].s == "(":
		p.i += 2
		inner, err := p.parseOr()
		if err != nil {
			return inner, err
		}
		if inner.pred {
			return inner, errSyntax
		}
		if err := p.expectPunct(")"); err != nil {
			return inner, err
		}
		return rnode{e: eExists(inner.e), pred: true, delimited: true}, nil
	case t.k == rtString:
		p.i++
		head = eStr(t.s)
	case t.k == rtVar:
		p.i++
		head = eVar(t.s)
	case t.k == rtInt:
		p.i++
		if t.big.IsInt64() {
			head = eInt(t.big.Int64())
		} else {
			f, _ := new(big.Float).SetInt(t.big).Float64()
			if math.IsInf(f, 0) {
				return rnode{}, errDecline
			}
			head = eNum(f)
			head.Flags = "bigint" // an integer literal beyond int64
		}
	case t.k == rtNum:
		p.i++
		head = eNum(t.f)
	case t.k == rtPunct && t.s == "$":
		p.i++
		head = eRoot()
	case t.k == rtPunct && t.s == "@":
		p.i++
		head = eCur()
	case p.isKW("last"):
		p.i++
		head = eLast()
	case p.isKW("true"):
		p.i++
		head = eTrue()
	case p.isKW("false"):
		p.i++
		head = eFalse()
	case p.isKW("null"):
		p.i++
		head = eNull()
	default:
		return rnode{}, errSyntax
	}
	var steps []*Expr
	for p.atAccessor() {
		s, err := p.parseAccessor()
		if err != nil {
			return rnode{}, err
		}
		steps = append(steps, s)
	}
	if len(steps) > 0 {
		head = head.withSteps(steps...)
	}
	return rnode{e: head}, nil
}

var methodNames = map[string]bool{"abs": true, "size": true, "type": true, "floor": true, "double": true, "ceiling": true, "keyvalue": true,
	"bigint": true, "boolean": true, "integer": true, "number": true, "string": true}
var dtNames = map[string]bool{"datetime": true, "date": true, "time": true, "time_tz": true, "timestamp": true, "timestamp_tz": true}

func (p *rparser) parseAnyLevel() (int, error) {
	t := p.next()
	if t.k == rtIdent && strings.EqualFold(t.s, "last") {
		return -1, nil
	}
	if t.k == rtInt {
		if !t.big.IsInt64() || t.big.Sign() < 0 || t.big.Int64() >= math.MaxUint32 {
			return -1, nil // saturates to "unbounded"
		}
		return int(t.big.Int64()), nil
	}
	return 0, errSyntax
}

func (p *rparser) parseAccessor() (*Expr, error) {
	t := p.next()
	switch t.s {
	case "?":
		if err := p.expectPunct("("); err != nil {
			return nil, err
		}
		n, err := p.parseOr()
		if err != nil {
			return nil, err
		}
		if !n.pred {
			return nil, errSyntax
		}
		if err := p.expectPunct(")"); err != nil {
			return nil, err
		}
		return sFilter(n.e), nil
	case "[":
		if p.isPunct("*") && p.toks[p.i+1].k == rtPunct && p.toks[p.i+1].s == "]" {
			p.i += 2
			return sAnyArray(), nil
		}
		var subs []Sub
		for {
			from, err := p.parseAdd()
			if err != nil {
				return nil, err
			}
			if from.pred {
				return nil, errSyntax
			}
			s := Sub{From: from.e}
			if p.isKW("to") {
				p.i++
				to, err := p.parseAdd()
				if err != nil {
					return nil, err
				}
				if to.pred {
					return nil, errSyntax
				}
				s.To = to.e
			}
			subs = append(subs, s)
			if p.isPunct(",") {
				p.i++
				continue
			}
			break
		}
		if err := p.expectPunct("]"); err != nil {
			return nil, err
		}
		return sIndex(subs...), nil
	}
	// "."
	n := p.next()
	switch {
	case n.k == rtPunct && n.s == "*":
		return sAnyKey(), nil
	case n.k == rtPunct && n.s == "**":
		if p.isPunct("{") {
			p.i++
			a, err := p.parseAnyLevel()
			if err != nil {
				return nil, err
			}
			b := a
			if p.isKW("to") {
				p.i++
				b, err = p.parseAnyLevel()
				if err != nil {
					return nil, err
				}
			}
			if err := p.expectPunct("}"); err != nil {
				return nil, err
			}
			return sAny(a, b), nil
		}
		return sAny(0, -1), nil
	case n.k == rtString:
		return sKey(n.s), nil
	case n.k == rtIdent:
		low := strings.ToLower(n.s)
		isKW := isKeyword(n.s) && !(low == "true" || low == "false" || low == "null") || n.s == "true" || n.s == "false" || n.s == "null"
		if isKW && p.isPunct("(") {
			switch {
			case methodNames[low]:
				p.i++
				if err := p.expectPunct(")"); err != nil {
					return nil, err
				}
				return sMethod(low), nil
			case low == "decimal":
				p.i++
				var args []int64
				for !p.isPunct(")") {
					neg := false
					if p.isPunct("+") || p.isPunct("-") {
						neg = p.next().s == "-"
					}
					a := p.next()
					if a.k != rtInt {
						return nil, errSyntax
					}
					if !a.big.IsInt64() {
						return nil, errDecline
					}
					v := a.big.Int64()
					if neg {
						v = -v
					}
					args = append(args, v)
					if p.isPunct(",") {
						p.i++
						if p.isPunct(")") {
							return nil, errSyntax
						}
						continue
					}
					if !p.isPunct(")") {
						return nil, errSyntax
					}
				}
				p.i++
				switch len(args) {
				case 0:
					return sDecimal(nil, nil), nil
				case 1:
					return sDecimal(&args[0], nil), nil
				case 2:
					return sDecimal(&args[0], &args[1]), nil
				}
				return nil, errors.New(".decimal() can only have an optional precision[,scale]")
			case dtNames[low]:
				p.i++
				s := &Expr{K: KDT, S: low}
				if !p.isPunct(")") {
					a := p.next()
					switch {
					case low == "datetime" && a.k == rtString:
						v := a.s
						s.T = &v
					case low != "datetime" && low != "date" && a.k == rtInt:
						if !a.big.IsInt64() {
							return nil, errDecline
						}
						v := a.big.Int64()
						s.P = &v
					default:
						return nil, errSyntax
					}
				}
				if err := p.expectPunct(")"); err != nil {
					return nil, err
				}
				return s, nil
			}
		}
		return sKey(n.s), nil
	}
	return nil, errSyntax
}

// validatePlacement: @ only inside a filter, last only inside a subscript.
func validatePlacement(e *Expr, depth int, inSub bool) error {
	if e == nil {
		return nil
	}
	switch e.K {
	case KCurrent:
		if depth <= 0 {
			return errors.New("@ is not allowed in root expressions")
		}
	case KLast:
		if !inSub {
			return errors.New("LAST is allowed only in array subscripts")
		}
	}
	d := depth
	if e.K == KFilter {
		d++
	}
	if err := validatePlacement(e.A, d, inSub); err != nil {
		return err
	}
	if err := validatePlacement(e.B, depth, inSub); err != nil {
		return err
	}
	for _, s := range e.Subs {
		if err := validatePlacement(s.From, depth, true); err != nil {
			return err
		}
		if err := validatePlacement(s.To, depth, true); err != nil {
			return err
		}
	}
	for _, s := range e.Steps {
		if err := validatePlacement(s, depth, inSub); err != nil {
			return err
		}
	}
	return nil
}
