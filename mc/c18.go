package main

// C18 — datetime values survive printing, JSON encoding and hostile input.

import (
	"context"
	"encoding/json"
	"fmt"
	"strings"
	"time"

	"github.com/theory/sqljson/path/types"
)

type dtValue struct {
	kind   string // date|time|timetz|timestamp|timestamptz
	y      int
	mo, d  int
	h, mi  int
	s, ns  int
	offMin int
}

func (v dtValue) goTime() time.Time {
	loc := time.FixedZone("", v.offMin*60)
	return time.Date(v.y, time.Month(v.mo), v.d, v.h, v.mi, v.s, v.ns, loc)
}

func (v dtValue) make(ctx context.Context) types.DateTime {
	t := v.goTime()
	switch v.kind {
	case "date":
		return types.NewDate(t)
	case "time":
		return types.NewTime(t)
	case "timetz":
		return types.NewTimeTZ(t)
	case "timestamp":
		return types.NewTimestamp(t)
	}
	return types.NewTimestampTZ(ctx, t)
}

// ref renders the value with the reference ISO-8601 printer.
func (v dtValue) ref() refDT {
	days := daysFromCivil(int64(v.y), int64(v.mo), int64(v.d))
	nsec := int64(v.h*3600+v.mi*60+v.s)*1e9 + int64(v.ns)
	switch v.kind {
	case "date":
		return refDT{kind: dtDate, days: days}
	case "time":
		return refDT{kind: dtTime, nsec: nsec}
	case "timetz":
		return refDT{kind: dtTimeTZ, nsec: nsec, off: v.offMin * 60}
	case "timestamp":
		return refDT{kind: dtTimestamp, days: days, nsec: nsec}
	}
	return refDT{kind: dtTimestampTZ, days: days, nsec: nsec, off: v.offMin * 60}
}

func c18Grid(thorough bool) []dtValue {
	dates := [][3]int{{1, 1, 1}, {1999, 12, 31}, {2000, 2, 29}, {2015, 8, 2}, {2015, 11, 1}, {2015, 3, 8}, {9999, 12, 31}, {1970, 1, 1}, {100, 3, 1}}
	clocks := [][3]int{{0, 0, 0}, {1, 30, 0}, {12, 34, 56}, {23, 59, 59}}
	nanos := []int{0, 1, 1000, 1000000, 999999999, 500000000, 120000000, 123456789, 999999000}
	var offs []int
	step := 15
	if !thorough {
		step = 45
	}
	for o := -12 * 60; o <= 14*60; o += step {
		offs = append(offs, o)
	}
	offs = append(offs, -1, 1, -59, 59, -30, 330, -210)
	var out []dtValue
	for _, d := range dates {
		out = append(out, dtValue{kind: "date", y: d[0], mo: d[1], d: d[2]})
	}
	for _, c := range clocks {
		for _, n := range nanos {
			out = append(out, dtValue{kind: "time", y: 0, mo: 1, d: 1, h: c[0], mi: c[1], s: c[2], ns: n})
			for _, o := range offs {
				out = append(out, dtValue{kind: "timetz", y: 0, mo: 1, d: 1, h: c[0], mi: c[1], s: c[2], ns: n, offMin: o})
			}
		}
	}
	for di, d := range dates {
		for ci, c := range clocks {
			for ni, n := range nanos {
				out = append(out, dtValue{kind: "timestamp", y: d[0], mo: d[1], d: d[2], h: c[0], mi: c[1], s: c[2], ns: n})
				for oi, o := range offs {
					if !thorough && (di+ci+ni+oi)%4 != 0 {
						continue
					}
					out = append(out, dtValue{kind: "timestamptz", y: d[0], mo: d[1], d: d[2], h: c[0], mi: c[1], s: c[2], ns: n, offMin: o})
				}
			}
		}
	}
	return out
}

func guardStr(f func() string) (s string, pan string) {
	defer func() {
		if r := recover(); r != nil {
			pan = fmt.Sprint(r)
		}
	}()
	return f(), ""
}

func sameDT(a, b types.DateTime) bool {
	if fmt.Sprintf("%T", a) != fmt.Sprintf("%T", b) {
		return false
	}
	ta, tb := a.GoTime(), b.GoTime()
	_, oa := ta.Zone()
	_, ob := tb.Zone()
	return ta.Equal(tb) && oa == ob
}

func c18ValueOf(c Case) dtValue {
	var v dtValue
	_ = json.Unmarshal([]byte(c.Extra["value"]), &struct {
		Kind                           *string
		Y, Mo, D, H, Mi, S, Ns, OffMin *int
	}{&v.kind, &v.y, &v.mo, &v.d, &v.h, &v.mi, &v.s, &v.ns, &v.offMin})
	return v
}

func c18ValueJSON(v dtValue) string {
	b, _ := json.Marshal(map[string]any{"Kind": v.kind, "Y": v.y, "Mo": v.mo, "D": v.d, "H": v.h, "Mi": v.mi, "S": v.s, "Ns": v.ns, "OffMin": v.offMin})
	return string(b)
}

func c18CheckValue(v dtValue) *Failure {
	ctx := context.Background()
	val := v.make(ctx)
	k := v.kind
	str, pan := guardStr(func() string { return val.String() })
	if pan != "" {
		return &Failure{Sig: "C18/string-panic/" + k, Expected: "String() returns", Observed: pan}
	}
	want := v.ref().text()
	if str != want {
		return &Failure{Sig: "C18/string-not-iso/" + k, Expected: want, Observed: str}
	}
	// ParseTime(String(v)) returns an equal value of the same type
	parsed, ok := types.ParseTime(ctx, str, -1)
	if !ok {
		return &Failure{Sig: "C18/parsetime-rejects-own-output/" + k, Expected: "ParseTime accepts " + str, Observed: "not recognised"}
	}
	if !sameDT(parsed, val) {
		return &Failure{Sig: "C18/parsetime-roundtrip/" + k, Expected: fmt.Sprintf("%T %v", val, val), Observed: fmt.Sprintf("%T %v", parsed, parsed)}
	}
	// JSON round trip
	var b []byte
	var err error
	_, pan = guardStr(func() string { b, err = json.Marshal(val); return "" })
	if pan != "" || err != nil {
		return &Failure{Sig: "C18/json-marshal/" + k, Expected: "marshals", Observed: fmt.Sprint(err, pan)}
	}
	var back types.DateTime
	switch k {
	case "date":
		back = new(types.Date)
	case "time":
		back = new(types.Time)
	case "timetz":
		back = new(types.TimeTZ)
	case "timestamp":
		back = new(types.Timestamp)
	default:
		back = new(types.TimestampTZ)
	}
	_, pan = guardStr(func() string { err = json.Unmarshal(b, back); return "" })
	if pan != "" || err != nil {
		return &Failure{Sig: "C18/json-unmarshal-own-output/" + k, Expected: "unmarshals " + string(b), Observed: fmt.Sprint(err, pan)}
	}
	if !sameDT(back, val) {
		return &Failure{Sig: "C18/json-roundtrip/" + k, Expected: fmt.Sprintf("%v", val), Observed: fmt.Sprintf("%v (from %s)", back, b)}
	}
	// .string() inside a path prints the same text
	method := map[string]string{"date": "date", "time": "time", "timetz": "time_tz", "timestamp": "timestamp", "timestamptz": "timestamp_tz"}[k]
	p, perr, ppan := parseCached("$." + method + "().string()")
	if perr != nil || ppan != "" {
		return &Failure{Sig: "C18/harness", Expected: "parses", Observed: fmt.Sprint(perr, ppan)}
	}
	o := implQuery(p, str, runCfg{tz: true})
	if o.Class != "ok" || len(o.Items) != 1 || o.Items[0] != str {
		return &Failure{Sig: "C18/path-string-differs/" + k, Expected: str, Observed: o.String()}
	}
	return nil
}

// ---- conversions commute with the context zone ----

func c18Conversions(c Case) *Failure {
	v := c18ValueOf(c)
	zone := zoneOf(c.Zone)
	ctx := context.Background()
	if zone != nil {
		ctx = types.ContextWithTZ(ctx, zone)
	}
	loc := zone
	if loc == nil {
		loc = time.UTC
	}
	// a zone-less value reads back the same whatever zone the context carries (also where that local
	// time does not exist in the zone)
	{
		var zv types.DateTime
		if v.kind == "date" {
			zv = types.NewDate(v.goTime())
		} else {
			zv = types.NewTimestamp(v.goTime())
		}
		parsed, ok := types.ParseTime(ctx, zv.String(), -1)
		if !ok || !sameDT(parsed, zv) {
			return &Failure{Sig: "C18/parsetime-depends-on-context-zone/" + v.kind + "/" + zoneClass(c.Zone), Expected: zv.String(), Observed: fmt.Sprint(parsed, " ok=", ok)}
		}
	}
	// the local time must exist (and be unambiguous) in the zone
	days := daysFromCivil(int64(v.y), int64(v.mo), int64(v.d))
	nsec := int64(v.h*3600+v.mi*60+v.s)*1e9 + int64(v.ns)
	if v.kind == "date" {
		nsec = 0
	}
	if _, clean := localToOffset(loc, days, nsec); !clean {
		return nil
	}
	switch v.kind {
	case "date":
		d := types.NewDate(v.goTime())
		back := d.ToTimestampTZ(ctx).ToDate(ctx)
		if !sameDT(back, d) {
			return &Failure{Sig: "C18/date-timestamptz-date/" + zoneClass(c.Zone), Expected: d.String(), Observed: back.String() + " via " + d.ToTimestampTZ(ctx).String()}
		}
	case "timestamp":
		ts := types.NewTimestamp(v.goTime())
		back := ts.ToTimestampTZ(ctx).ToTimestamp(ctx)
		if !sameDT(back, ts) {
			return &Failure{Sig: "C18/timestamp-timestamptz-timestamp/" + zoneClass(c.Zone), Expected: ts.String(), Observed: back.String() + " via " + ts.ToTimestampTZ(ctx).String()}
		}
	}
	return nil
}

// ---- UnmarshalJSON on hostile input ----

func c18Unmarshal(c Case) *Failure {
	data := []byte(c.Extra["data"])
	targets := map[string]func() json.Unmarshaler{
		"date": func() json.Unmarshaler { return new(types.Date) }, "time": func() json.Unmarshaler { return new(types.Time) },
		"timetz": func() json.Unmarshaler { return new(types.TimeTZ) }, "timestamp": func() json.Unmarshaler { return new(types.Timestamp) },
		"timestamptz": func() json.Unmarshaler { return new(types.TimestampTZ) },
	}
	for _, k := range []string{"date", "time", "timetz", "timestamp", "timestamptz"} {
		// direct call
		var pan string
		func() {
			defer func() {
				if r := recover(); r != nil {
					pan = fmt.Sprint(r)
				}
			}()
			_ = targets[k]().UnmarshalJSON(data)
		}()
		if pan != "" {
			return &Failure{Sig: "C18/unmarshaljson-panic/direct/" + k, Expected: "an error or success", Observed: "panic: " + pan}
		}
		// through encoding/json (only syntactically valid JSON reaches the method)
		func() {
			defer func() {
				if r := recover(); r != nil {
					pan = fmt.Sprint(r)
				}
			}()
			_ = json.Unmarshal(data, targets[k]())
		}()
		if pan != "" {
			return &Failure{Sig: "C18/unmarshaljson-panic/encoding-json/" + k, Expected: "an error or success", Observed: "panic: " + pan}
		}
	}
	return nil
}

func checkC18(c Case) *Failure {
	switch c.Rule {
	case "value":
		return c18CheckValue(c18ValueOf(c))
	case "conversion":
		return c18Conversions(c)
	case "unmarshal":
		return c18Unmarshal(c)
	}
	panic("harness: C18 rule")
}

func runC18(r *Run) {
	r.Level = "model_checking"
	r.Rule("for each of the five Go datetime types every value of a grid (9 dates incl. years 1 and 9999 and leap day x 4 clock times x 9 nanosecond patterns x whole-minute offsets -12:00..+14:00 in 15/45-minute steps plus +-1, +-59, +-30, +05:30, -03:30 minutes): String() equals the reference ISO-8601 printer, ParseTime(String(v)) equal and same type, json round trip equal, .string() in a path prints the same text; UnmarshalJSON (direct and through encoding/json) on every byte string of length <= 3 over a 20-byte alphabet, every prefix and every single-byte edit of one valid encoding per type, every JSON token kind, and every valid encoding padded with 0..9 leading and trailing bytes of each JSON white-space character, and every valid encoding with its characters written as \\uXXXX escapes (each one, the first / last k, all) or surrounded by 1..8 short escapes: never a panic; date -> timestamptz -> date and timestamp -> timestamptz -> timestamp identities for every grid value x 8 context zones where the local time exists; non-trivial = every grid value / input (all distinct)")
	grid := c18Grid(r.Thorough())
	r.Bound("grid_values", len(grid))
	r.ParFor(len(grid), func(i int) {
		v := grid[i]
		r.evals.Add(1)
		r.traces.Add(4)
		r.transitions.Add(4)
		if f := c18CheckValue(v); f != nil {
			r.Fail(Case{Rule: "value", Extra: map[string]string{"value": c18ValueJSON(v)}}, f)
			return
		}
		r.Distinct(c18ValueJSON(v))
		if i%4001 == 0 {
			r.Sample(map[string]string{"kind": v.kind, "string": v.make(context.Background()).String()})
		}
	})
	r.states.Add(int64(len(grid)))
	// conversions
	zones := []string{"", "UTC", "+05:30", "-08:00", "America/New_York", "Australia/Lord_Howe", "Asia/Kolkata", "Europe/London", "America/Sao_Paulo"}
	var conv []dtValue
	for _, v := range grid {
		if v.kind == "date" || v.kind == "timestamp" {
			conv = append(conv, v)
		}
	}
	// local times around DST transitions
	for _, d := range [][3]int{{2015, 3, 8}, {2015, 11, 1}, {2015, 10, 4}, {2015, 4, 5}, {2015, 3, 29}, {2015, 10, 25}, {2018, 11, 4}, {2018, 2, 18}, {2024, 3, 10}} {
		for h := 0; h < 24; h++ {
			for _, mi := range []int{0, 29, 30, 31, 59} {
				conv = append(conv, dtValue{kind: "timestamp", y: d[0], mo: d[1], d: d[2], h: h, mi: mi})
			}
		}
		conv = append(conv, dtValue{kind: "date", y: d[0], mo: d[1], d: d[2]})
	}
	r.Bound("conversion_values", len(conv))
	r.ParFor(len(conv), func(i int) {
		for _, z := range zones {
			c := Case{Rule: "conversion", Zone: z, Extra: map[string]string{"value": c18ValueJSON(conv[i])}}
			r.evals.Add(1)
			if f := c18Conversions(c); f != nil {
				r.Fail(c, f)
			}
		}
	})
	// hostile input to UnmarshalJSON
	alpha := []string{`"`, "0", "1", "2", "9", "-", ":", "+", "T", "Z", ".", " ", "n", "u", "l", "t", "{", "[", "\\", "\x00"}
	en := allStrings("short-byte-strings", alpha, 3)
	var inputs []string
	for i := 0; i < en.count; i++ {
		inputs = append(inputs, en.at(i))
	}
	valid := []string{`"2015-08-02"`, `"12:34:56.789"`, `"12:34:56.789+05:30"`, `"2015-08-02T12:34:56.789"`, `"2015-08-02T12:34:56.789+05:30"`, `"12:34:56Z"`, `"2015-08-02T12:34:56+05"`, `"12:34:56+05:30:15"`}
	for _, s := range valid {
		for i := 0; i <= len(s); i++ {
			inputs = append(inputs, s[:i], s[i:])
			for _, b := range alpha {
				inputs = append(inputs, s[:i]+b+s[i:])
				if i < len(s) {
					inputs = append(inputs, s[:i]+b+s[i+1:])
				}
			}
			if i < len(s) {
				inputs = append(inputs, s[:i]+s[i+1:])
			}
		}
	}
	inputs = append(inputs, `null`, `true`, `false`, `1`, `1.5`, `-1`, `1e400`, `""`, `"a"`, `"ab"`, `"abc"`, `[]`, `{}`, `[1]`, `{"a":1}`, `"A"`, ` "2015-08-02" `, `"2015-08-02"x`, ``, ` `, `"`, `""""`,
		strings.Repeat(`"`, 9), `"+"`, `"-"`, `"123456789"`, `"12345678"`, `"+12345678"`, `"-1234"`)
	// JSON white space around a quoted value, every (leading, trailing) padding of 0..9 bytes of each kind
	for _, body := range append(append([]string{}, valid...), `""`, `"a"`, `"12:34"`, `"12:34:56"`, `"+05:30"`, `null`) {
		for _, ws := range []string{" ", "\t", "\n", "\r"} {
			for lead := 0; lead <= 9; lead++ {
				for trail := 0; trail <= 9; trail++ {
					if lead+trail > 0 {
						inputs = append(inputs, strings.Repeat(ws, lead)+body+strings.Repeat(ws, trail))
					}
				}
			}
		}
	}
	// escaped spellings of a JSON string: every character of a valid encoding written as \uXXXX (one at a
	// time, the first k, the last k, all), short escapes, and escapes inside short and malformed strings
	uesc := func(b byte) string { return fmt.Sprintf("\\u%04x", b) }
	for _, sv := range append(append([]string{}, valid...), `"a"`, `""`, `"12:34"`, `"+05:30"`) {
		body := sv[1 : len(sv)-1]
		for i := 0; i < len(body); i++ {
			inputs = append(inputs, `"`+body[:i]+uesc(body[i])+body[i+1:]+`"`)
		}
		for k := 1; k <= len(body); k++ {
			var head, tail strings.Builder
			for i := 0; i < k; i++ {
				head.WriteString(uesc(body[i]))
				tail.WriteString(uesc(body[len(body)-k+i]))
			}
			inputs = append(inputs, `"`+head.String()+body[k:]+`"`, `"`+body[:len(body)-k]+tail.String()+`"`)
		}
		for _, e := range []string{`\/`, `\\`, `\"`, `\n`, `\t`, `\u`, `\u12`, `\ud800`, `\x41`} {
			for rep := 1; rep <= 8; rep++ {
				inputs = append(inputs, `"`+strings.Repeat(e, rep)+`"`, `"`+body+strings.Repeat(e, rep)+`"`, `"`+strings.Repeat(e, rep)+body+`"`)
			}
		}
	}
	r.Bound("unmarshal_inputs", len(inputs))
	r.ParFor(len(inputs), func(i int) {
		c := Case{Rule: "unmarshal", Extra: map[string]string{"data": inputs[i]}}
		r.evals.Add(1)
		if f := c18Unmarshal(c); f != nil {
			r.Fail(c, f)
		}
	})
}
