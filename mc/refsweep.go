package main

// Generic "every program x every document x every configuration against the
// reference model" sweep, used by C01, C07, C14, C15 and others with different
// program generators and document universes.

import (
	"encoding/json"
	"fmt"
	"sort"
	"strings"
	"sync"

	"github.com/theory/sqljson/path"
)

type docEntry struct {
	text string
	f    any // numbers as float64
	n    any // numbers as json.Number
}

func makeDocs(vals []any) []docEntry {
	out := make([]docEntry, len(vals))
	for i, v := range vals {
		out[i] = docEntry{text: toJSON(v), f: v, n: toNumberMode(v)}
	}
	return out
}

type sweepCfg struct {
	Num    string // float64 | number
	Silent bool
	TZ     bool
	Zone   string
	Vars   map[string]string
}

func (s sweepCfg) String() string {
	return fmt.Sprintf("%s/silent=%v/tz=%v/%s/%v", s.Num, s.Silent, s.TZ, s.Zone, s.Vars)
}

var kindNames = [...]string{"root", "cur", "last", "var", "str", "int", "num", "true", "false", "null",
	"key", "anykey", "anyarray", "any", "index", "method", "decimal", "dt", "filter",
	"neg", "pos", "arith", "cmp", "and", "or", "not", "isunknown", "exists", "startswith", "likeregex"}

func kindSet(e *Expr, set map[string]bool) {
	if e == nil {
		return
	}
	name := kindNames[e.K]
	if e.K == KMethod || e.K == KDT {
		name = e.S
	}
	set[name] = true
	kindSet(e.A, set)
	kindSet(e.B, set)
	for _, s := range e.Subs {
		kindSet(s.From, set)
		kindSet(s.To, set)
	}
	for _, s := range e.Steps {
		kindSet(s, set)
	}
}

func shapeOf(p Path) string {
	set := map[string]bool{}
	kindSet(p.E, set)
	names := make([]string, 0, len(set))
	for k := range set {
		names = append(names, k)
	}
	sort.Strings(names)
	mode := "lax"
	if p.Strict {
		mode = "strict"
	}
	return mode + ":" + strings.Join(names, "+")
}

func pathJSON(p Path) string { b, _ := json.Marshal(p); return string(b) }

func pathFromJSON(s string) Path {
	var p Path
	if err := json.Unmarshal([]byte(s), &p); err != nil {
		panic("harness: bad expr json: " + err.Error())
	}
	return p
}

func refCase(id, rule string, p Path, d docEntry, cfg sweepCfg) Case {
	return Case{Property: id, Rule: rule, Path: p.String(), Doc: d.text, Num: cfg.Num, Silent: cfg.Silent, TZ: cfg.TZ, Zone: cfg.Zone,
		Vars: cfg.Vars, Entry: "query", Extra: map[string]string{"expr": pathJSON(p)}}
}

// refVars decodes the variables once for the reference (same values as the implementation gets).
func refVars(c Case) map[string]any {
	if c.Vars == nil {
		return nil
	}
	m := map[string]any{}
	for k, v := range c.Vars {
		m[k] = decodeTagged(v, c.Num)
	}
	return m
}

type cmpStats struct {
	declined    bool
	transitions int64
	stateKey    string
	outcome     string
	nontrivial  bool
}

var parseCache sync.Map // text -> *path.Path

func parseCached(text string) (*path.Path, error, string) {
	if v, ok := parseCache.Load(text); ok {
		return v.(*path.Path), nil, ""
	}
	p, err, pan := implParse(text)
	if err == nil && pan == "" {
		parseCache.Store(text, p)
	}
	return p, err, pan
}

// compareQueryWithRef is the pure oracle: Query of the rendered path against the
// reference model's items and error class.
func compareQueryWithRef(id string, c Case, visited *[40 * 16 * 2]bool) (*Failure, cmpStats) {
	p := pathFromJSON(c.Extra["expr"])
	return compareQueryCore(id, p, shapeOf(p), mustDoc(c.Doc, c.Num), c, visited)
}

func compareQueryCore(id string, p Path, shape string, doc any, c Case, visited *[40 * 16 * 2]bool) (*Failure, cmpStats) {
	var st cmpStats
	parsed, perr, pan := parseCached(c.Path)
	if pan != "" {
		return &Failure{Sig: id + "/parse-panic/" + shape, Expected: "the generated path parses", Observed: "panic: " + pan}, st
	}
	if perr != nil {
		return &Failure{Sig: id + "/parse-error/" + shape, Expected: "the generated path parses", Observed: perr.Error()}, st
	}
	cfg := cfgOf(c)
	out := implQuery(parsed, doc, cfg)

	keyPerm := 0
	runRef := func(quirk string) refOut {
		rc := newRefCtx(p.Strict, doc, map[string]any(cfg.vars), c.TZ, zoneOf(c.Zone))
		rc.visited = visited
		rc.quirk = quirk
		rc.keyPerm = keyPerm
		ro := refQuery(p, rc)
		st.transitions += rc.transitions
		return ro
	}
	ro := runRef("")
	f := judgeQuery(id, shape, out, ro, c, &st)
	if f != nil && ro.multiObj {
		// The outcome may depend on the order in which a wildcard met the members of an object (an
		// early exit, or which of an item and an error comes first). Go map order is open: the
		// implementation is right if it agrees with the reference under some member order.
		perms := 1
		for i := 2; i <= ro.maxObj && i <= 4; i++ {
			perms *= i
		}
		for keyPerm = 1; keyPerm < perms; keyPerm++ {
			var st2 cmpStats
			if judgeQuery(id, shape, out, runRef(""), c, &st2) == nil {
				st.outcome = "ok under another object member order"
				return nil, st
			}
		}
		keyPerm = 0
	}
	if f != nil {
		// Does the implementation behave exactly like the reference with one recorded
		// defect switched on? Then it is that known finding, not a new violation.
		for _, q := range quirkSubsets() {
			var st2 cmpStats
			// (a reference that declines once the recorded defect is switched on cannot
			// contradict the implementation either: the failure is attributed to that defect)
			if judgeQuery(id, shape, out, runRef(q), c, &st2) == nil {
				return &Failure{Sig: id + "/known/" + q, Expected: f.Expected, Observed: f.Observed}, st
			}
		}
	}
	return f, st
}

// refQuirks names the recorded defects the reference can emulate for
// classification (each corresponds to one entry of KNOWN_FINDINGS.txt).
var refQuirks = []string{"subscript-drops-null", "isunknown-swallows-hard-error", "unary-nonnumeric-exists-true", "datetime-vs-other-errinvalid"}

func judgeQuery(id, shape string, out Out, ro refOut, c Case, st *cmpStats) *Failure {
	if out.Class == "panic" {
		return &Failure{Sig: id + "/panic/" + shape, Expected: "no panic; reference: " + refString(ro), Observed: out.String()}
	}
	if (out.Class == "invalid" && ro.class() != "invalid") || out.Class == "other" || out.Class == "null" {
		return &Failure{Sig: id + "/error-class-" + out.Class + "/" + shape, Expected: "ok, soft or hard; reference: " + refString(ro), Observed: out.String()}
	}
	if ro.declined != "" {
		st.declined = true
		st.outcome = "declined: " + ro.declined
		return nil
	}
	for _, it := range ro.items {
		if bareID(it, false) {
			st.declined = true
			st.outcome = "declined: a raw keyvalue id is part of the result"
			return nil
		}
	}
	// what the entry point must return
	expClass := ro.class()
	expItems := ro.items
	if c.Silent && expClass == "soft" {
		expClass = "ok" // items found before the failure
		if ro.multiObj {
			st.declined = true
			st.outcome = "declined: prefix before a failure after iterating a multi-member object"
			return nil
		}
	}
	st.outcome = expClass
	st.nontrivial = expClass != "ok" || len(expItems) > 0
	if expClass != "ok" && c.Silent && ro.multiObj {
		// which error is met first (a suppressible one ends the silent run quietly) depends on member order
		st.declined = true
		st.outcome = "declined: silent run failing after iterating a multi-member object"
		return nil
	}
	if expClass != "ok" {
		if out.Class == "ok" {
			return &Failure{Sig: fmt.Sprintf("%s/missed-error/%s/%s", id, expClass, shape), Expected: refString(ro), Observed: out.String()}
		}
		if out.Class != expClass && !ro.multiObj {
			return &Failure{Sig: fmt.Sprintf("%s/error-class/%s-vs-%s/%s", id, expClass, out.Class, shape), Expected: refString(ro), Observed: out.String()}
		}
		st.stateKey = "err:" + expClass
		return nil
	}
	if out.Class != "ok" {
		return &Failure{Sig: fmt.Sprintf("%s/spurious-error/%s/%s", id, out.Class, shape), Expected: refString(ro), Observed: out.String()}
	}
	var got, want string
	if ro.multiObj {
		got, want = canonMultiset(out.Items), canonMultiset(expItems)
	} else {
		got, want = canonList(out.Items), canonList(expItems)
	}
	st.stateKey = want
	if got != want {
		if ro.inexact {
			st.declined = true
			st.outcome = "declined: inexact integer quotient"
			return nil
		}
		return &Failure{Sig: fmt.Sprintf("%s/items-differ/%s", id, shape), Expected: want, Observed: got}
	}
	return nil
}

func refString(o refOut) string {
	s := o.class()
	if o.err != nil {
		s += " (" + o.err.msg + ")"
	}
	return s + " items " + canonList(o.items)
}

// refSweep enumerates paths x docs x cfgs completely (index-sharded over paths).
func refSweep(r *Run, rule string, paths []Path, docs []docEntry, cfgs []sweepCfg) {
	id := r.ID
	var vmu sync.Mutex
	var visited [40 * 16 * 2]bool
	stateSets := make([]map[uint64]struct{}, 64)
	var smu [64]sync.Mutex
	for i := range stateSets {
		stateSets[i] = map[uint64]struct{}{}
	}
	r.ParFor(len(paths), func(i int) {
		if r.Expired() {
			r.Cap(fmt.Sprintf("internal deadline: %s sweep stopped before path index %d of %d (paths below the index are complete)", rule, i, len(paths)))
			return
		}
		p := paths[i]
		var local [40 * 16 * 2]bool
		outcomes := map[string]int64{}
		text := p.String()
		r.Note(i, text)
		ej := pathJSON(p)
		shape := shapeOf(p)
		for di, d := range docs {
			for _, cfg := range cfgs {
				c := Case{Property: id, Rule: rule, Path: text, Doc: d.text, Num: cfg.Num, Silent: cfg.Silent, TZ: cfg.TZ, Zone: cfg.Zone,
					Vars: cfg.Vars, Entry: "query", Extra: map[string]string{"expr": ej}}
				doc := d.f
				if cfg.Num == "number" {
					doc = d.n
				}
				f, st := compareQueryCore(id, p, shape, doc, c, &local)
				r.evals.Add(1)
				r.traces.Add(1)
				r.transitions.Add(st.transitions)
				if st.declined {
					r.declined.Add(1)
				}
				outcomes[st.outcome]++
				if f != nil {
					r.Fail(c, f)
					continue
				}
				if st.nontrivial {
					r.Distinct(text + "|" + d.text + "|" + cfg.String())
				}
				if st.stateKey != "" {
					h := fnv64(fmt.Sprintf("%d|%s|%s", di, cfg.Num, st.stateKey))
					b := h >> 58
					smu[b].Lock()
					stateSets[b][h] = struct{}{}
					smu[b].Unlock()
				}
				if i%257 == 0 && di == (i/257)%len(docs) && cfg.String() == cfgs[(i/257)%len(cfgs)].String() {
					r.Sample(map[string]any{"path": text, "doc": d.text, "cfg": cfg.String(), "outcome": st.outcome, "result": st.stateKey})
				}
			}
		}
		vmu.Lock()
		for j, b := range local {
			if b {
				visited[j] = true
			}
		}
		vmu.Unlock()
		r.mu.Lock()
		for k, v := range outcomes {
			r.outcomes[k] += v
		}
		r.mu.Unlock()
	})
	n := int64(0)
	for _, s := range stateSets {
		n += int64(len(s))
	}
	r.states.Add(n)
	cfgCount := 0
	for _, b := range visited {
		if b {
			cfgCount++
		}
	}
	r.mu.Lock()
	prev, _ := r.extra["ref_configurations_visited"].(int)
	r.extra["ref_configurations_visited"] = prev + cfgCount
	r.mu.Unlock()
}

var _ = path.ErrPath

// bareID reports whether v contains a keyvalue id outside the "id" member of its triple.
func bareID(v any, inTripleID bool) bool {
	switch x := v.(type) {
	case refID:
		return !inTripleID
	case []any:
		for _, e := range x {
			if bareID(e, false) {
				return true
			}
		}
	case map[string]any:
		kv := isKVTriple(x)
		for k, e := range x {
			if bareID(e, kv && k == "id") {
				return true
			}
		}
	}
	return false
}

// quirkSubsets: every single recorded defect, then every pair, triple, ... (smallest first, in a fixed order).
func quirkSubsets() []string {
	n := len(refQuirks)
	var out []string
	for size := 1; size <= n; size++ {
		for mask := 1; mask < 1<<n; mask++ {
			var names []string
			for i := 0; i < n; i++ {
				if mask&(1<<i) != 0 {
					names = append(names, refQuirks[i])
				}
			}
			if len(names) == size {
				out = append(out, strings.Join(names, "+"))
			}
		}
	}
	return out
}
