package main

// The harness's own abstract path type and its printer. Abstract paths are
// never ast.Nodes: they are rendered to text and handed to path.Parse, so the
// parser and the executor are exercised together and the reference model never
// sees the implementation's tree.

import (
	"strconv"
	"strings"
)

type Kind int

const (
	// primaries
	KRoot Kind = iota
	KCurrent
	KLast
	KVar
	KStr
	KInt
	KNum
	KTrue
	KFalse
	KNull
	// accessor steps
	KKey
	KAnyKey
	KAnyArray
	KAny // .**{First to Last}; -1 = last
	KIndex
	KMethod  // S = name without dot/parens
	KDecimal // .decimal(P,Sc)
	KDT      // S = datetime|date|time|time_tz|timestamp|timestamp_tz ; P = precision ; T = template
	KFilter  // A = predicate
	// arithmetic
	KNeg
	KPos
	KArith // S = + - * / %
	// predicates
	KCmp // S = == != < <= > >=
	KAnd
	KOr
	KNot
	KIsUnknown
	KExists
	KStartsWith // A = expr, B = KStr or KVar
	KLikeRegex  // A = expr, S = pattern, Flags
)

type Sub struct {
	From *Expr `json:"from,omitempty"`
	To   *Expr `json:"to,omitempty"`
}

type Expr struct {
	K     Kind    `json:"k"`
	S     string  `json:"s,omitempty"`
	I     int64   `json:"i,omitempty"`
	F     float64 `json:"f,omitempty"`
	A     *Expr   `json:"a,omitempty"`
	B     *Expr   `json:"b,omitempty"`
	Subs  []Sub   `json:"subs,omitempty"`
	First int     `json:"first,omitempty"`
	Last  int     `json:"last,omitempty"`
	Flags string  `json:"flags,omitempty"`
	P     *int64  `json:"p,omitempty"`
	Sc    *int64  `json:"sc,omitempty"`
	T     *string `json:"t,omitempty"`
	Steps []*Expr `json:"steps,omitempty"`
}

// Path is a complete abstract path.
type Path struct {
	Strict bool  `json:"strict,omitempty"`
	E      *Expr `json:"e"`
}

func (k Kind) isPredicate() bool { return k >= KCmp }
func (k Kind) isStep() bool      { return k >= KKey && k <= KFilter }

// ---- constructors ----

func eRoot(steps ...*Expr) *Expr          { return &Expr{K: KRoot, Steps: steps} }
func eCur(steps ...*Expr) *Expr           { return &Expr{K: KCurrent, Steps: steps} }
func eLast() *Expr                        { return &Expr{K: KLast} }
func eVar(n string, steps ...*Expr) *Expr { return &Expr{K: KVar, S: n, Steps: steps} }
func eStr(s string) *Expr                 { return &Expr{K: KStr, S: s} }
func eInt(i int64) *Expr                  { return &Expr{K: KInt, I: i} }
func eNum(f float64) *Expr                { return &Expr{K: KNum, F: f} }
func eTrue() *Expr                        { return &Expr{K: KTrue} }
func eFalse() *Expr                       { return &Expr{K: KFalse} }
func eNull() *Expr                        { return &Expr{K: KNull} }
func sKey(k string) *Expr                 { return &Expr{K: KKey, S: k} }
func sAnyKey() *Expr                      { return &Expr{K: KAnyKey} }
func sAnyArray() *Expr                    { return &Expr{K: KAnyArray} }
func sAny(first, last int) *Expr          { return &Expr{K: KAny, First: first, Last: last} }
func sIndex(subs ...Sub) *Expr            { return &Expr{K: KIndex, Subs: subs} }
func sMethod(name string) *Expr           { return &Expr{K: KMethod, S: name} }
func sFilter(p *Expr) *Expr               { return &Expr{K: KFilter, A: p} }
func sDT(name string, prec *int64) *Expr  { return &Expr{K: KDT, S: name, P: prec} }
func sDecimal(p, s *int64) *Expr          { return &Expr{K: KDecimal, P: p, Sc: s} }
func eNeg(a *Expr) *Expr                  { return &Expr{K: KNeg, A: a} }
func ePos(a *Expr) *Expr                  { return &Expr{K: KPos, A: a} }
func eArith(op string, a, b *Expr) *Expr  { return &Expr{K: KArith, S: op, A: a, B: b} }
func eCmp(op string, a, b *Expr) *Expr    { return &Expr{K: KCmp, S: op, A: a, B: b} }
func eAnd(a, b *Expr) *Expr               { return &Expr{K: KAnd, A: a, B: b} }
func eOr(a, b *Expr) *Expr                { return &Expr{K: KOr, A: a, B: b} }
func eNot(a *Expr) *Expr                  { return &Expr{K: KNot, A: a} }
func eIsUnknown(a *Expr) *Expr            { return &Expr{K: KIsUnknown, A: a} }
func eExists(a *Expr) *Expr               { return &Expr{K: KExists, A: a} }
func eStartsWith(a, b *Expr) *Expr        { return &Expr{K: KStartsWith, A: a, B: b} }
func eLikeRegex(a *Expr, pat, flags string) *Expr {
	return &Expr{K: KLikeRegex, A: a, S: pat, Flags: flags}
}
func sub1(e *Expr) Sub    { return Sub{From: e} }
func subR(a, b *Expr) Sub { return Sub{From: a, To: b} }
func i64(v int64) *int64  { return &v }

// withSteps returns a copy of e with steps appended.
func (e *Expr) withSteps(steps ...*Expr) *Expr {
	c := *e
	c.Steps = append(append([]*Expr{}, e.Steps...), steps...)
	return &c
}

// size counts abstract nodes (steps included).
func (e *Expr) size() int {
	if e == nil {
		return 0
	}
	n := 1 + e.A.size() + e.B.size()
	for _, s := range e.Subs {
		n += s.From.size() + s.To.size()
	}
	for _, s := range e.Steps {
		n += s.size()
	}
	return n
}

// ---- printer (canonical, generously parenthesised spelling) ----

func (p Path) String() string {
	if p.Strict {
		return "strict " + p.E.text()
	}
	return p.E.text()
}

func quoteJS(s string) string {
	var b strings.Builder
	b.WriteByte('"')
	for _, r := range s {
		switch {
		case r == '"' || r == '\\':
			b.WriteByte('\\')
			b.WriteRune(r)
		case r == '\n':
			b.WriteString(`\n`)
		case r == '\t':
			b.WriteString(`\t`)
		case r == '\r':
			b.WriteString(`\r`)
		case r < 0x20 || r == 0x7f:
			b.WriteString(`\u`)
			h := strconv.FormatInt(int64(r), 16)
			b.WriteString(strings.Repeat("0", 4-len(h)) + h)
		default:
			b.WriteRune(r)
		}
	}
	b.WriteByte('"')
	return b.String()
}

func numText(f float64) string {
	s := strconv.FormatFloat(f, 'g', -1, 64)
	if !strings.ContainsAny(s, ".eEn") { // integral: force a numeric (non-integer) literal
		s += ".0"
	}
	return s
}

func simpleIdent(s string) bool {
	if s == "" {
		return false
	}
	for i, r := range s {
		ok := r == '_' || (r >= 'a' && r <= 'z') || (r >= 'A' && r <= 'Z') || (i > 0 && r >= '0' && r <= '9')
		if !ok {
			return false
		}
	}
	return true
}

// head renders the expression without its steps.
func (e *Expr) head() string {
	switch e.K {
	case KRoot:
		return "$"
	case KCurrent:
		return "@"
	case KLast:
		return "last"
	case KVar:
		if simpleIdent(e.S) {
			return "$" + e.S
		}
		return "$" + quoteJS(e.S)
	case KStr:
		return quoteJS(e.S)
	case KInt:
		return strconv.FormatInt(e.I, 10)
	case KNum:
		return numText(e.F)
	case KTrue:
		return "true"
	case KFalse:
		return "false"
	case KNull:
		return "null"
	case KNeg:
		return "-" + e.A.operand()
	case KPos:
		return "+" + e.A.operand()
	case KArith:
		return e.A.operand() + " " + e.S + " " + e.B.operand()
	case KCmp:
		return e.A.operand() + " " + e.S + " " + e.B.operand()
	case KAnd:
		return "(" + e.A.text() + ") && (" + e.B.text() + ")"
	case KOr:
		return "(" + e.A.text() + ") || (" + e.B.text() + ")"
	case KNot:
		return "!(" + e.A.text() + ")"
	case KIsUnknown:
		return "(" + e.A.text() + ") is unknown"
	case KExists:
		return "exists(" + e.A.text() + ")"
	case KStartsWith:
		return e.A.operand() + " starts with " + e.B.text()
	case KLikeRegex:
		s := e.A.operand() + " like_regex " + quoteJS(e.S)
		if e.Flags != "" {
			s += " flag " + quoteJS(e.Flags)
		}
		return s
	}
	panic("harness: head of step kind")
}

// operand renders e as an operand of an arithmetic or comparison operator.
func (e *Expr) operand() string {
	if len(e.Steps) == 0 {
		switch e.K {
		case KArith, KNeg, KPos:
			return "(" + e.head() + ")"
		case KInt, KNum:
			if e.I < 0 || e.F < 0 {
				return "(" + e.head() + ")"
			}
		}
	}
	return e.text()
}

func (e *Expr) text() string {
	if len(e.Steps) == 0 {
		return e.head()
	}
	var b strings.Builder
	switch e.K {
	case KRoot, KCurrent, KLast, KVar, KStr, KTrue, KFalse, KNull:
		b.WriteString(e.head())
	default:
		b.WriteString("(" + e.head() + ")")
	}
	for _, s := range e.Steps {
		b.WriteString(s.stepText())
	}
	return b.String()
}

func anyLevel(n int) string {
	if n < 0 {
		return "last"
	}
	return strconv.Itoa(n)
}

func (s *Expr) stepText() string {
	switch s.K {
	case KKey:
		if simpleIdent(s.S) && !isKeyword(s.S) {
			return "." + s.S
		}
		return "." + quoteJS(s.S)
	case KAnyKey:
		return ".*"
	case KAnyArray:
		return "[*]"
	case KAny:
		switch {
		case s.First == 0 && s.Last < 0:
			return ".**"
		case s.First == s.Last:
			return ".**{" + anyLevel(s.First) + "}"
		default:
			return ".**{" + anyLevel(s.First) + " to " + anyLevel(s.Last) + "}"
		}
	case KIndex:
		parts := make([]string, len(s.Subs))
		for i, sub := range s.Subs {
			parts[i] = sub.From.text()
			if sub.To != nil {
				parts[i] += " to " + sub.To.text()
			}
		}
		return "[" + strings.Join(parts, ", ") + "]"
	case KMethod:
		return "." + s.S + "()"
	case KDecimal:
		switch {
		case s.P == nil:
			return ".decimal()"
		case s.Sc == nil:
			return ".decimal(" + strconv.FormatInt(*s.P, 10) + ")"
		default:
			return ".decimal(" + strconv.FormatInt(*s.P, 10) + ", " + strconv.FormatInt(*s.Sc, 10) + ")"
		}
	case KDT:
		switch {
		case s.T != nil:
			return "." + s.S + "(" + quoteJS(*s.T) + ")"
		case s.P != nil:
			return "." + s.S + "(" + strconv.FormatInt(*s.P, 10) + ")"
		default:
			return "." + s.S + "()"
		}
	case KFilter:
		return " ? (" + s.A.text() + ")"
	}
	panic("harness: stepText of non-step")
}

var keywords = map[string]bool{}

func init() {
	for _, k := range strings.Fields(`null true false is to abs lax date flag last size time type with floor bigint double exists number starts strict string boolean ceiling decimal integer time_tz unknown datetime keyvalue timestamp like_regex timestamp_tz`) {
		keywords[k] = true
	}
}

func isKeyword(s string) bool { return keywords[strings.ToLower(s)] }
