package main

// C19 — a parsed Path is immutable, concurrency-safe and deterministic.
// (a) schedule exploration under the controlled scheduler, (b) explicit-state
// search over call histories on one Path, (c) determinism on fresh inputs,
// (d) supplementary free-running pass under the race detector.

import (
	"bytes"
	"context"
	"encoding/json"
	"fmt"
	"os"
	"os/exec"
	"sort"
	"strings"
	"sync"
	"time"

	"github.com/theory/sqljson/path"
	sqlexec "github.com/theory/sqljson/path/exec"
	"github.com/theory/sqljson/path/types"
)

// ---- operations ----

type c19Op struct {
	Kind string // query|first|exists|match|string|parsequery
	Path int    // index into the shared path texts
}

type c19Scenario struct {
	Paths []string
	Doc   string
	Vars  map[string]string
	Zone  string
	Num   string  // "float64" (default) or "number": how the shared document is decoded
	Ops   []c19Op // one per thread
}

type c19Shared struct {
	paths []*path.Path
	doc   any
	vars  sqlexec.Vars
	zone  string
}

func (sc *c19Scenario) fresh() *c19Shared {
	sh := &c19Shared{zone: sc.Zone}
	for _, t := range sc.Paths {
		p, err := path.Parse(t)
		if err != nil {
			panic("harness: C19 pool path does not parse: " + t + ": " + err.Error())
		}
		sh.paths = append(sh.paths, p)
	}
	num := sc.Num
	if num == "" {
		num = "float64"
	}
	sh.doc = mustDoc(sc.Doc, num)
	if sc.Vars != nil {
		sh.vars = sqlexec.Vars{}
		for k, v := range sc.Vars {
			sh.vars[k] = decodeTagged(v, "float64")
		}
	}
	return sh
}

func (sh *c19Shared) opts() []sqlexec.Option {
	o := []sqlexec.Option{sqlexec.WithTZ()}
	if sh.vars != nil {
		o = append(o, sqlexec.WithVars(sh.vars))
	}
	return o
}

func renderErr(err error) string {
	if err == nil {
		return "nil"
	}
	return classify(err) + ":" + err.Error()
}

// run executes one operation with ctx (a scheduler / counting context or Background).
func (sh *c19Shared) run(op c19Op, ctx context.Context, text string) string {
	if z := zoneOf(sh.zone); z != nil {
		ctx = types.ContextWithTZ(ctx, z)
	}
	p := sh.paths[op.Path]
	switch op.Kind {
	case "query":
		items, err := p.Query(ctx, sh.doc, sh.opts()...)
		if err != nil {
			return "query " + renderErr(err)
		}
		return "query " + canonMultiset(items)
	case "first":
		it, err := p.First(ctx, sh.doc, sh.opts()...)
		if err != nil {
			return "first " + renderErr(err)
		}
		if multiMember(sh.doc) {
			return "first ok"
		}
		return "first " + canon(it)
	case "exists":
		b, err := p.Exists(ctx, sh.doc, sh.opts()...)
		return fmt.Sprint("exists ", b, " ", renderErr(err))
	case "match":
		b, err := p.Match(ctx, sh.doc, sh.opts()...)
		return fmt.Sprint("match ", b, " ", renderErr(err))
	case "string":
		s := p.String()
		b, _ := p.MarshalText()
		return "string " + s + " / " + string(b) + " / " + p.PgIndexOperator()
	case "parsequery":
		q, err := path.Parse(text)
		if err != nil {
			return "parse error " + err.Error()
		}
		items, err := q.Query(ctx, sh.doc, sh.opts()...)
		if err != nil {
			return "parsequery " + q.String() + " " + renderErr(err)
		}
		return "parsequery " + q.String() + " " + canonMultiset(items)
	}
	panic("harness: op kind " + op.Kind)
}

func (sc *c19Scenario) solo() []string {
	out := make([]string, len(sc.Ops))
	for i, op := range sc.Ops {
		sh := sc.fresh()
		out[i] = sh.run(op, context.Background(), sc.Paths[op.Path])
	}
	return out
}

// c19Explore explores one scenario; returns the explorer (counts, failure).
func c19Explore(sc *c19Scenario, bound int, tokenYields bool, cap int64) *scheduleExplorer {
	solo := sc.solo()
	var shared *c19Shared
	var fpDoc uint64
	e := &scheduleExplorer{bound: bound, tokenYields: tokenYields, cap: cap}
	e.mk = func() []threadBody {
		shared = sc.fresh()
		fpDoc = fingerprint(shared.doc, map[string]any(shared.vars))
		bodies := make([]threadBody, len(sc.Ops))
		for i, op := range sc.Ops {
			i, op := i, op
			sh := shared
			bodies[i] = func(ctx context.Context) string { return sh.run(op, ctx, sc.Paths[op.Path]) }
		}
		return bodies
	}
	e.check = func(x *schedExec) *Failure {
		for i, res := range x.results {
			if res != solo[i] {
				return &Failure{Sig: "C19/interleaved-result-differs/" + sc.Ops[i].Kind, Expected: "thread " + fmt.Sprint(i) + " alone: " + solo[i], Observed: res}
			}
		}
		if fp := fingerprint(shared.doc, map[string]any(shared.vars)); fp != fpDoc {
			return &Failure{Sig: "C19/shared-input-modified", Expected: "document and variables (including hidden slice capacity) unchanged", Observed: "fingerprint changed during the execution"}
		}
		return nil
	}
	e.explore(nil)
	return e
}

func c19ScenarioJSON(sc *c19Scenario) string { return mustJSON(sc) }

func checkC19(c Case) *Failure {
	switch c.Rule {
	case "schedule":
		var sc c19Scenario
		mustUnJSON(c.Extra["scenario"], &sc)
		var sched []int
		mustUnJSON(c.Extra["schedule"], &sched)
		solo := sc.solo()
		shared := sc.fresh()
		fp := fingerprint(shared.doc, map[string]any(shared.vars))
		bodies := make([]threadBody, len(sc.Ops))
		for i, op := range sc.Ops {
			i, op := i, op
			bodies[i] = func(ctx context.Context) string { return shared.run(op, ctx, sc.Paths[op.Path]) }
		}
		x := runSchedule(bodies, sched, c.Extra["tokens"] == "1")
		for i, res := range x.results {
			if res != solo[i] {
				return &Failure{Sig: "C19/interleaved-result-differs/" + sc.Ops[i].Kind, Expected: solo[i], Observed: res}
			}
		}
		if fingerprint(shared.doc, map[string]any(shared.vars)) != fp {
			return &Failure{Sig: "C19/shared-input-modified", Expected: "unchanged", Observed: "fingerprint changed"}
		}
		return nil
	case "history":
		return c19History(c, nil)
	case "determinism":
		return c19Determinism(c)
	case "zone-history":
		return c19ZoneHistory(c.Path)
	}
	return nil
}

func mustUnJSON(s string, v any) {
	if err := json.Unmarshal([]byte(s), v); err != nil {
		panic("harness: " + err.Error())
	}
}

// ---- pool ----

var c19PathPool = []string{
	`$.a[*] ? (@ > 1)`, `$.a[*] ? (@ like_regex "^[0-9]$" flag "i")`, `$.b ? (@ starts with $x)`, `$.keyvalue()`, `$.d.keyvalue().value`,
	`$.s.datetime() < "2015-08-03".datetime()`, `$.s.timestamp_tz().string()`, `$.** ? (@.type() == "number")`, `$.a[last ? (@ > 0)]`, `$.a[0 to last].double()`,
	`$.a[*] + 1`, `-$.a[0]`, `($.a[0] == 1) is unknown`, `exists($.d.e[*] ? (@ == true))`, `$.a[*] == 2`, `$.e[*] == 4`, `$.e[*] > 2`, `strict $.a[*].size()`,
	`$.a[$y]`, `$.a[*] ? (@ > $y && @ < 3)`, `$.*`, `$.b like_regex "x" flag "q"`, `$[*].integer()`, `strict $.** ? (exists(@.b)).b`, `$.a ? (@[*] ? (@ > 1) == 2)`,
	`$.e.abs()`, `$.e[0][0 to last] * 2`, `$.e[*] ? (@ == 1 || @ == 4)`,
	`"2015-08-02".timestamp_tz().string()`, `$.s.timestamp().string()`, `"2015-08-02T01:00:00".timestamp_tz() < $.s.timestamp_tz()`,
	`$.a[*].decimal(20,1)`, `+$.a[1]`, `$.a[*] ? (-@ < -1)`, `"12:00:00".time_tz().string()`, `"12:00:00".time() < "12:00:00+01".time_tz()`,
	`(exists($.a)).type()`, `(!($.a[0] == 1)).string()`, `(($.a[0] == 1) is unknown).boolean()`, `($.a[0] + 1).abs() * 2`,
}

const c19Doc = `{"a":[1,2,3],"b":"x","c":null,"d":{"e":[true,false]},"s":"2015-08-02T12:34:56+05:30","e":[[1,2,3],4]}`

var c19Vars = map[string]string{"x": "s:x", "y": "i:1"}

func c19Scenarios(thorough bool) []*c19Scenario {
	var out []*c19Scenario
	kinds := []string{"query", "first", "exists", "match", "string"}
	// two threads on the same Path object: every unordered pair of entry kinds
	for _, p := range c19PathPool {
		// A lax Exists stops at the first item; over a multi-member object (random Go map order) the
		// number of scheduling points would differ from run to run. That nondeterminism is not the
		// harness's to own, so Exists is not scheduled on lax wildcard paths (Query/First/Match are).
		randomEarlyExit := !strings.HasPrefix(p, "strict ") && (strings.Contains(p, ".*") || strings.Contains(p, ".**"))
		for i, k1 := range kinds {
			for _, k2 := range kinds[i:] {
				if randomEarlyExit && (k1 == "exists" || k2 == "exists") {
					continue
				}
				out = append(out, &c19Scenario{Paths: []string{p}, Doc: c19Doc, Vars: c19Vars, Zone: "America/New_York", Ops: []c19Op{{k1, 0}, {k2, 0}}})
			}
		}
	}
	// two threads on different paths sharing the document and the variables
	for i := range c19PathPool {
		for j := i + 1; j < len(c19PathPool); j++ {
			out = append(out, &c19Scenario{Paths: []string{c19PathPool[i], c19PathPool[j]}, Doc: c19Doc, Vars: c19Vars, Zone: "+05:30", Ops: []c19Op{{"query", 0}, {"query", 1}}})
		}
	}
	// three threads on a core
	core := []int{0, 1, 3, 5, 8, 10, 14, 15, 19, 26}
	for a := 0; a < len(core); a++ {
		for b := a; b < len(core); b++ {
			for c := b; c < len(core); c++ {
				if !thorough && (a+b+c)%3 != 0 {
					continue
				}
				out = append(out, &c19Scenario{Paths: []string{c19PathPool[core[a]], c19PathPool[core[b]], c19PathPool[core[c]]}, Doc: c19Doc, Vars: c19Vars,
					Ops: []c19Op{{"query", 0}, {"exists", 1}, {"query", 2}}})
			}
		}
	}
	return out
}

func c19ParseScenarios() []*c19Scenario {
	var out []*c19Scenario
	// String()/MarshalText at node granularity against every entry point on the same Path (the
	// rendering hooks are process-global, so these run in the sequential phase too)
	for _, p := range []string{`(exists($.a)).type()`, `(!($.a[0] == 1)).string()`, `(($.a[0] == 1) is unknown).boolean()`, `($.a[0] + 1).abs() * 2`,
		`$.a[*] ? (@ like_regex "^[0-9]$" flag "i")`, `$.a[$y to last] ? (@ > 1).double()`, `-$.a[0].abs()`, `$."k y".**{1 to 2} ? (@ starts with $x)`} {
		for _, k := range []string{"query", "first", "exists", "match", "string"} {
			out = append(out, &c19Scenario{Paths: []string{p}, Doc: c19Doc, Vars: c19Vars, Ops: []c19Op{{"string", 0}, {k, 0}}})
		}
	}
	texts := []string{`$.a[*] ? (@ > 1)`, `$."kay" ? (@ like_regex "a\\.b" flag "i")`, `strict $.**{1 to 2}.x`, `$.a.decimal(5, 2) + 0x1F * 1_000`, `$"va r" starts with "😀"`}
	for i := range texts {
		for j := i; j < len(texts); j++ {
			out = append(out, &c19Scenario{Paths: []string{texts[i], texts[j]}, Doc: c19Doc, Vars: c19Vars, Ops: []c19Op{{"parsequery", 0}, {"parsequery", 1}}})
			out = append(out, &c19Scenario{Paths: []string{texts[i], texts[j]}, Doc: c19Doc, Vars: c19Vars, Ops: []c19Op{{"parsequery", 0}, {"string", 1}}})
		}
	}
	return out
}

// ---- (b) history search ----

type c19HistOp struct {
	name string
	run  func(sh *c19Shared) string
}

func c19HistOps() []c19HistOp {
	mk := func(kind string) c19HistOp {
		return c19HistOp{kind, func(sh *c19Shared) string { return sh.run(c19Op{Kind: kind}, context.Background(), "") }}
	}
	ops := []c19HistOp{mk("query"), mk("first"), mk("exists"), mk("match"), mk("string")}
	ops = append(ops, c19HistOp{"value+marshal", func(sh *c19Shared) string {
		v, _ := sh.paths[0].Value()
		b, _ := sh.paths[0].MarshalBinary()
		return fmt.Sprint(v, " ", string(b), " ", sh.paths[0].IsPredicate())
	}})
	ops = append(ops, c19HistOp{"query-silent-cancelled", func(sh *c19Shared) string {
		ctx, cancel := context.WithCancel(context.Background())
		cancel()
		_, err := sh.paths[0].Query(ctx, sh.doc, sqlexec.WithSilent())
		return "cancelled " + classify(err)
	}})
	ops = append(ops, c19HistOp{"query-without-WithTZ", func(sh *c19Shared) string {
		ctx := context.Background()
		if z := zoneOf(sh.zone); z != nil {
			ctx = types.ContextWithTZ(ctx, z)
		}
		items, err := sh.paths[0].Query(ctx, sh.doc, sqlexec.WithVars(sh.vars))
		if err != nil {
			return "notz " + classify(err)
		}
		return "notz " + canonMultiset(items)
	}})
	ops = append(ops, c19HistOp{"other-path-failing-after-items", func(sh *c19Shared) string {
		// another Path whose operands deliver items and then fail (soft and hard): nothing of it may survive
		// (the last one is lax and suppresses its failure: whatever it leaves behind is still there afterwards)
		for _, t := range []string{`strict $[*].a == 7`, `$[*] ? (@.double() > 0 && @ == $missing)`, `$[*].double() == 7`} {
			p, err := path.Parse(t)
			if err != nil {
				return "parse " + err.Error()
			}
			_, _ = p.Exists(context.Background(), []any{float64(7), "x"}, sqlexec.WithSilent())
			_, _ = p.Query(context.Background(), []any{float64(7), "x", map[string]any{"a": float64(7)}})
		}
		return "planted"
	}})
	ops = append(ops, c19HistOp{"parse-same-text-then-reload-that-object", func(sh *c19Shared) string {
		// another holder parses the same text and re-uses its own object for another path: Paths are
		// values of their holders, two Parse calls never share one
		text := sh.paths[0].String()
		p2, err := path.Parse(text)
		if err != nil {
			return "parse " + err.Error()
		}
		p3 := path.MustParse(text)
		res := p2.String() + " / " + p3.String()
		_ = p2.Scan("strict $.zz ? (@ == 1)")
		_ = p3.UnmarshalText([]byte("$.yy"))
		return res
	}})
	ops = append(ops, c19HistOp{"parse-rejected-inputs-then-parse-this-text", func(sh *c19Shared) string {
		// inputs the parser rejects at different stages (lexer, grammar, actions, validation), then a fresh
		// Parse of the text under test: nothing of a failed Parse may reach the next one
		for _, bad := range []string{`$ like_regex "("`, `$.a like_regex "a" flag "z"`, `1e999 == 1`, `$.a.decimal(1,2,3) == 1`, `$ == 1 /*`, `@ == 1`, `$ == "unterminated`, `strict`, `$.**{-1} == 1`,
			`exists($ ? (@ like_regex "["))`, `$[last] ? (last == 1`, `$ ==`, `($ == 1) is`, "$ == \"a\\x\""} {
			_, _ = path.Parse(bad)
		}
		text := sh.paths[0].String()
		p2, err := path.Parse(text)
		if err != nil {
			return "parse " + err.Error()
		}
		b, xerr := p2.ExistsOrMatch(context.Background(), sh.doc, sh.opts()...)
		return fmt.Sprint(p2.String(), " pred=", p2.IsPredicate(), " op=", p2.PgIndexOperator(), " lax=", p2.IsLax(), " x=", b, " ", renderErr(xerr))
	}})
	ops = append(ops, c19HistOp{"other-paths-corpus", func(sh *c19Shared) string {
		// a corpus of other Paths over other documents, in both number representations, exercising every
		// numeric helper, method and predicate kind (also on negative and huge values): none of it may
		// change what the Path under test returns afterwards
		c19RunCorpus()
		return "corpus"
	}})
	ops = append(ops, c19HistOp{"query-other-doc", func(sh *c19Shared) string {
		items, err := sh.paths[0].Query(context.Background(), []any{float64(1), "z"}, sh.opts()...)
		if err != nil {
			return "other " + classify(err)
		}
		return "other " + canonMultiset(items)
	}})
	return ops
}

var c19CorpusTexts = []string{`-$[*]`, `+$[*]`, `$[*] + 1`, `$[*] * -1`, `1 - $[0]`, `$[0] % 2`, `$[0] / 3`, `$[*].abs()`, `$[*].floor()`, `$[*].ceiling()`, `$[*].double()`, `$[*].integer()`, `$[*].bigint()`,
	`$[*].number()`, `$[*].decimal()`, `$[*].decimal(20,1)`, `$[*].decimal(25,3)`, `$[*].decimal(3,1)`, `$[*].decimal(19,0)`, `$[*].string()`, `$[*].boolean()`, `$[*].type()`, `$.size()`, `$[*] ? (@ > 0)`,
	`$[*] ? (@ == 1)`, `$[*] ? (@ like_regex "^x")`, `$[*] ? (@ starts with "x")`, `$[*].datetime()`, `$[*].date()`, `$[*].timestamp_tz()`, `$.keyvalue()`, `$.**`, `$.*`, `$[*] == 1`, `$[*] < -1`, `$[last]`, `$[0 to 1]`,
	`$[$[*].integer()]`, `$[0 to $[*].double()]`, `$.b[$.b[*]]`, `$[$[0], $[2].integer()]`, `$ ? (@[$[*].integer()] > 0)`, `$[last, $[*].integer()]`,
	`strict $[*].double()`, `strict -$[*]`, `$.a`, `$.b[*] + $.a`, `(-$[*]).abs()`, `(+$[*]).string()`, `$[*] ? (-@ < 0)`, `$[*] ? (@.decimal(20,1) > 0)`}

var c19CorpusDocs = []string{`[-7.5,5,"x"]`, `[1,-1,"2015-08-02"]`, `{"a":-3,"b":[1,2]}`, `[-9223372036854775808,100000000000000000000,0.001]`, `[3,2,1]`, `[-1,-2,-3]`}

var c19Corpus struct {
	once  sync.Once
	paths []*path.Path
	docs  []any
}

func c19RunCorpus() {
	c19Corpus.once.Do(func() {
		for _, t := range c19CorpusTexts {
			p, err := path.Parse(t)
			if err != nil {
				panic("harness: corpus path " + t + ": " + err.Error())
			}
			c19Corpus.paths = append(c19Corpus.paths, p)
		}
		for _, d := range c19CorpusDocs {
			c19Corpus.docs = append(c19Corpus.docs, mustDoc(d, "float64"), mustDoc(d, "number"))
		}
	})
	ctx := types.ContextWithTZ(context.Background(), time.UTC)
	for _, p := range c19Corpus.paths {
		for _, d := range c19Corpus.docs {
			_, _ = p.Query(ctx, d, sqlexec.WithTZ())
		}
	}
}

// c19Alone runs every history operation of one pool path in a process of its own (one process per
// operation) and returns the rendered results.
func c19Alone(pathText, num string, nops int) ([]string, error) {
	exe, err := os.Executable()
	if err != nil {
		return nil, err
	}
	out := make([]string, nops)
	for i := 0; i < nops; i++ {
		cmd := exec.Command(exe, "C19", "--solo", mustJSON(map[string]any{"path": pathText, "num": num, "op": i}))
		cmd.Env = append(os.Environ(), "VERIF_INFLIGHT=")
		b, err := cmd.Output()
		if err != nil {
			return nil, fmt.Errorf("solo process for op %d: %w", i, err)
		}
		out[i] = strings.TrimSuffix(string(b), "\n")
	}
	return out, nil
}

// c19SoloMain is the body of such a process.
func c19SoloMain(arg string) {
	var a struct {
		Path string `json:"path"`
		Num  string `json:"num"`
		Op   int    `json:"op"`
	}
	if err := json.Unmarshal([]byte(arg), &a); err != nil {
		fmt.Fprintln(os.Stderr, err)
		os.Exit(2)
	}
	sc := &c19Scenario{Paths: []string{a.Path}, Doc: c19Doc, Vars: c19Vars, Zone: "UTC", Num: a.Num}
	fmt.Println(c19HistOps()[a.Op].run(sc.fresh()))
}

// c19History: BFS over call sequences on one Path; state = fingerprint of the
// Path object (private AST fields included); every operation in every reached
// state must return what it returns in the initial state.
func c19History(c Case, r *Run) *Failure {
	sc := &c19Scenario{Paths: []string{c.Path}, Doc: c19Doc, Vars: c19Vars, Zone: "UTC", Num: c.Num}
	ops := c19HistOps()
	maxDepth := 3
	if c.Extra["depth"] != "" {
		fmt.Sscan(c.Extra["depth"], &maxDepth)
	}
	force := 2 // histories of <= force calls are extended whether or not the Path's fingerprint changed
	if c.Extra["force"] != "" {
		fmt.Sscan(c.Extra["force"], &force)
	}
	base := make([]string, len(ops))
	for i, op := range ops {
		base[i] = op.run(sc.fresh())
	}
	// "what the same call returns when run alone": each operation once more in a fresh process that
	// does nothing else (state kept in package-level variables cannot have been touched there)
	if alone, err := c19Alone(c.Path, sc.Num, len(ops)); err == nil {
		for i := range ops {
			if maskIDs(alone[i]) != maskIDs(base[i]) {
				return &Failure{Sig: "C19/differs-from-the-call-run-alone/" + ops[i].name, Expected: "alone in a fresh process: " + alone[i], Observed: base[i] + " (in the checking process, after other calls)"}
			}
		}
	} else if r != nil {
		r.Cap("fresh-process oracle unavailable: " + err.Error())
	}
	build := func(hist []int) *c19Shared {
		sh := sc.fresh()
		for _, i := range hist {
			ops[i].run(sh)
		}
		return sh
	}
	init := fingerprint(sc.fresh().paths[0])
	seen := map[uint64]bool{init: true}
	frontier := [][]int{{}}
	states, transitions := 1, 0
	for depth := 0; depth < maxDepth && len(frontier) > 0; depth++ {
		var next [][]int
		for _, hist := range frontier {
			for i, op := range ops {
				sh := build(hist)
				res := op.run(sh)
				transitions++
				if res != base[i] {
					names := []string{}
					for _, h := range hist {
						names = append(names, ops[h].name)
					}
					return &Failure{Sig: "C19/history-changes-result/" + op.name, Expected: "after [" + strings.Join(names, ", ") + "] still: " + base[i], Observed: res}
				}
				fp := fingerprint(sh.paths[0])
				fresh := !seen[fp]
				if fresh {
					seen[fp] = true
					states++
				}
				// State kept outside the Path (a package-level cache or pool) does not show in the
				// fingerprint: every history of <= 2 calls is extended whether or not the Path changed.
				if fresh || depth < force {
					next = append(next, append(append([]int{}, hist...), i))
				}
			}
		}
		frontier = next
	}
	if r != nil {
		r.states.Add(int64(states))
		r.transitions.Add(int64(transitions))
		r.mu.Lock()
		r.outcomes[fmt.Sprintf("history states reached per path: %d", states)]++
		r.mu.Unlock()
	}
	return nil
}

// ---- (c) determinism ----

func c19Determinism(c Case) *Failure {
	sc := &c19Scenario{Paths: []string{c.Path}, Doc: c19Doc, Vars: c19Vars, Zone: c.Zone}
	for _, kind := range []string{"query", "first", "exists", "match", "string"} {
		var first string
		for rep := 0; rep < 3; rep++ {
			sh := sc.fresh()
			res := sh.run(c19Op{Kind: kind}, context.Background(), "")
			// keyvalue ids are address-derived: compare modulo ids across fresh inputs
			res = maskIDs(res)
			if rep == 0 {
				first = res
			} else if res != first {
				return &Failure{Sig: "C19/not-deterministic/" + kind, Expected: first, Observed: res}
			}
		}
	}
	return nil
}

// c19ZoneHistory: a call's result does not depend on which context zones earlier calls used, even when
// two zones share a name/abbreviation: the result under (name N, offset B) after a call under (N, A)
// equals the result under a never-used name with offset B.
func c19ZoneHistory(pathText string) *Failure {
	p, err := path.Parse(pathText)
	if err != nil {
		return nil
	}
	doc := mustDoc(c19Doc, "float64")
	run := func(zone *time.Location) string {
		ctx := types.ContextWithTZ(context.Background(), zone)
		items, err := p.Query(ctx, doc, sqlexec.WithTZ(), sqlexec.WithVars(sqlexec.Vars{"x": "x", "y": int64(1)}))
		if err != nil {
			return "err " + classify(err)
		}
		return canonMultiset(items)
	}
	hour := 3600
	pairs := [][2]int{{-6 * hour, 8 * hour}, {5*hour + 1800, 2 * hour}, {0, -4 * hour}}
	for i, pr := range pairs {
		name := fmt.Sprintf("XS%d", i)
		_ = run(time.FixedZone(name, pr[0]))
		got := run(time.FixedZone(name, pr[1]))
		want := run(time.FixedZone(fmt.Sprintf("Q%d%d", i, len(pathText)), pr[1]))
		if got != want {
			return &Failure{Sig: "C19/result-depends-on-earlier-context-zone", Expected: want, Observed: got + " (after a call under a zone of the same name with another offset)"}
		}
	}
	return nil
}

func maskIDs(s string) string {
	for {
		i := strings.Index(s, `"id":#`)
		if i < 0 {
			return s
		}
		j := i + 6
		for j < len(s) && (s[j] == '-' || (s[j] >= '0' && s[j] <= '9')) {
			j++
		}
		s = s[:i] + `"id":ID` + s[j:]
	}
}

// ---- (d) race pass ----

// c19RaceWorker is run by a binary built with -race: free-running goroutines
// over the pool on shared objects, fresh objects per round (first-use races).
func c19RaceWorker() {
	scs := c19Scenarios(false)
	scs = append(scs, c19ParseScenarios()...)
	for round := 0; round < 3; round++ {
		for _, sc := range scs {
			sh := sc.fresh()
			var wg sync.WaitGroup
			start := make(chan struct{})
			for g := 0; g < 4; g++ {
				for _, op := range sc.Ops {
					wg.Add(1)
					op := op
					go func() {
						defer wg.Done()
						<-start
						for k := 0; k < 3; k++ {
							sh.run(op, context.Background(), sc.Paths[op.Path])
						}
					}()
				}
			}
			close(start)
			wg.Wait()
		}
	}
	fmt.Println("race worker finished")
}

func c19RacePass(r *Run) {
	bin := os.Getenv("VERIF_RACE_BIN")
	if bin == "" {
		r.Extra("race_pass", "skipped: VERIF_RACE_BIN not set (the ./check wrapper builds it)")
		return
	}
	cmd := exec.Command(bin, "C19", "--race-worker")
	cmd.Env = append(os.Environ(), "GORACE=halt_on_error=0 exitcode=0")
	var out bytes.Buffer
	cmd.Stdout, cmd.Stderr = &out, &out
	err := cmd.Run()
	text := out.String()
	n := strings.Count(text, "WARNING: DATA RACE")
	r.Extra("race_pass", map[string]any{"data_races_reported": n, "finished": strings.Contains(text, "race worker finished"), "note": "supplementary, free-running (schedule-sampled); not an exhaustive part"})
	if n > 0 {
		logp := verifRoot + "/replays/C19-race.log"
		_ = os.WriteFile(logp, out.Bytes(), 0o644)
		first := text[strings.Index(text, "WARNING: DATA RACE"):]
		if len(first) > 1500 {
			first = first[:1500]
		}
		// signature: the functions of the first two stack frames
		r.Fail(Case{Rule: "race", Extra: map[string]string{"log": logp}}, &Failure{Sig: "C19/data-race/" + raceSite(first), Expected: "no data race", Observed: first})
	} else if err != nil || !strings.Contains(text, "race worker finished") {
		r.Fail(Case{Rule: "race"}, &Failure{Sig: "C19/race-worker-failed", Expected: "race worker finishes", Observed: fmt.Sprint(err, " ", tail(text, 800))})
	}
}

func raceSite(report string) string {
	var fns []string
	for _, line := range strings.Split(report, "\n") {
		line = strings.TrimSpace(line)
		if strings.HasPrefix(line, "github.com/theory/sqljson/") && strings.Contains(line, "(") {
			fn := line[len("github.com/theory/sqljson/"):]
			fn = fn[:strings.Index(fn, "(")]
			fns = append(fns, strings.NewReplacer("(", "", ")", "", "*", "").Replace(fn))
			if len(fns) == 2 {
				break
			}
		}
	}
	sort.Strings(fns)
	return strings.Join(fns, "+")
}

func tail(s string, n int) string {
	if len(s) <= n {
		return s
	}
	return s[len(s)-n:]
}

// ---- run ----

func runC19(r *Run) {
	r.Rule("(a) stateless schedule exploration under a controlled cooperative scheduler (real goroutines, one runnable at a time; scheduling points = every ctx.Done() poll, i.e. every executed path item, and every lexer token for Parse): every unordered pair of entry points {Query,First,Exists,Match,String} on one shared *Path for each of 28 pool paths (regex, datetime with context zone, keyvalue, variables, nested filters, .**, subscripts, arithmetic, operands yielding an array then a scalar), every pair of pool paths sharing document and variables, triples of a 10-path core, and pairs of concurrent Parse+Query/String at token granularity; depth-first over all schedules with <= B preemptions; oracle: every call returns its solo result and the shared document/variables (incl. hidden slice capacity) are unchanged. (b) explicit-state BFS over call histories on one Path per pool path, with the shared document decoded as float64 and as json.Number: state = reflect fingerprint of the Path (private AST fields); 13 operations (the five entry points, Parse of 14 rejected inputs followed by a fresh Parse of the text under test, a corpus of 51 other Paths over 6 other documents in both number representations, Parse of the same text by another holder who then re-loads its own object, Value/MarshalBinary, a cancelled silent Query, Query without WithTZ, Query on another document, and calls on other Paths whose operands deliver items and then fail); all histories of <= 2 calls (json.Number document in the quick tier: <= 1 call) are extended regardless of the fingerprint (state outside the Path), longer ones while the fingerprint is new; every operation after every history returns its initial-state result, and that result equals what the operation returns alone in a fresh process (one process per operation). (c) each pool operation three times on equal, freshly allocated inputs. (d) supplementary: the same bodies free-running under the race detector. non-trivial = schedules with at least one preemption")
	B := 2
	if r.Thorough() {
		B = 3
	}
	r.Bound("preemption_bound", B)
	scs := c19Scenarios(r.Thorough())
	r.Bound("scenarios", len(scs))
	var total, nontrivial, points int64
	byPre := map[int]int64{}
	maxPts := 0
	var mu sync.Mutex
	r.ParFor(len(scs), func(i int) {
		if r.Expired() {
			r.Cap(fmt.Sprintf("internal deadline before scenario %d of %d", i, len(scs)))
			return
		}
		sc := scs[i]
		r.Note(i, c19ScenarioJSON(sc))
		e := c19Explore(sc, B, false, 200000)
		if e.capped {
			r.Cap("per-scenario execution cap (200000) hit: that scenario is exhaustive only below the cap")
		}
		if e.failure != nil {
			r.Fail(Case{Rule: "schedule", Path: strings.Join(sc.Paths, " ;; "), Doc: sc.Doc, Extra: map[string]string{"scenario": c19ScenarioJSON(sc), "schedule": mustJSON(e.failSched), "tokens": "0"}}, e.failure)
		}
		mu.Lock()
		total += e.executions
		points += e.pointsTotal
		for k, v := range e.byPreempt {
			byPre[k] += v
			if k > 0 {
				nontrivial += v
			}
		}
		if e.maxPoints > maxPts {
			maxPts = e.maxPoints
		}
		mu.Unlock()
		if i%97 == 0 {
			r.Sample(map[string]any{"paths": sc.Paths, "ops": sc.Ops, "schedules_explored": e.executions, "max_scheduling_points": e.maxPoints})
		}
	})
	// Parse at token granularity: sequential (the lexer hook is process-global)
	pscs := c19ParseScenarios()
	r.Bound("parse_scenarios", len(pscs))
	for _, sc := range pscs {
		if r.Expired() {
			r.Cap("internal deadline in the token-level Parse scenarios")
			break
		}
		e := c19Explore(sc, B, true, 100000)
		if e.capped {
			r.Cap("per-scenario execution cap (100000) hit in a token-level scenario")
		}
		if e.failure != nil {
			r.Fail(Case{Rule: "schedule", Path: strings.Join(sc.Paths, " ;; "), Doc: sc.Doc, Extra: map[string]string{"scenario": c19ScenarioJSON(sc), "schedule": mustJSON(e.failSched), "tokens": "1"}}, e.failure)
		}
		total += e.executions
		points += e.pointsTotal
		for k, v := range e.byPreempt {
			byPre[k] += v
			if k > 0 {
				nontrivial += v
			}
		}
		if e.maxPoints > maxPts {
			maxPts = e.maxPoints
		}
	}
	r.evals.Add(total)
	r.traces.Add(total)
	r.distinctN.Store(nontrivial)
	r.Extra("schedules_by_preemptions", byPre)
	r.Extra("max_scheduling_points_in_one_execution", maxPts)
	for k, v := range byPre {
		r.outcomes[fmt.Sprintf("schedules with %d preemptions", k)] = v
	}
	// (b) histories, (c) determinism
	depth := "3"
	if r.Thorough() {
		depth = "5"
	}
	r.ParFor(len(c19PathPool), func(i int) {
		for _, num := range []string{"float64", "number"} {
			force := "2"
			if num == "number" && !r.Thorough() {
				force = "1" // quick: with the document as json.Number every single call is followed by every operation
			}
			c := Case{Rule: "history", Path: c19PathPool[i], Num: num, Extra: map[string]string{"depth": depth, "force": force}}
			if f := c19History(c, r); f != nil {
				r.Fail(c, f)
			}
		}
		zc := Case{Rule: "zone-history", Path: c19PathPool[i]}
		if f := c19ZoneHistory(c19PathPool[i]); f != nil {
			r.Fail(zc, f)
		}
		for _, z := range []string{"", "America/New_York"} {
			d := Case{Rule: "determinism", Path: c19PathPool[i], Zone: z}
			r.evals.Add(15)
			if f := c19Determinism(d); f != nil {
				r.Fail(d, f)
			}
		}
	})
	r.states.Add(total) // every complete schedule is a distinct explored execution
	r.transitions.Add(points)
	c19RacePass(r)
}
