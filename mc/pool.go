package main

// A pool of (path, document) pairs covering every node kind; used where the
// property quantifies over "a pool of paths covering all node kinds" (C19, C20)
// in addition to the generated spaces.

type poolItem struct {
	Path string
	Doc  string
	Vars map[string]string
	TZ   bool
	Zone string
}

var poolDocs = []string{
	`{"a":[1,2,{"b":3}],"b":"x","c":null,"d":{"e":[true,false]},"s":"2015-08-02T12:34:56+05:30"}`,
	`[1,[2,3],{"a":1},"abc",null,true,2.5]`,
	`{"a":1}`,
}

var poolPaths = []string{
	`$`, `$.a`, `$.*`, `$[*]`, `$[0]`, `$[last]`, `$[0 to 1]`, `$[0,1]`, `$[last - 1 to last]`,
	`$.**`, `$.**{1}`, `$.**{1 to 2}`, `$.**{last}`, `$.**.b`,
	`$.a[*]`, `$.a[*].b`, `$.a[*] ? (@ > 1)`, `$.a ? (@[*] > 1)`, `$[*] ? (@.a == 1)`,
	`$.a[*] ? (@ > 1 && @ < 3)`, `$.a[*] ? (@ > 1 || @ < 0)`, `$.a[*] ? (!(@ > 1))`,
	`$.a[*] ? ((@ > 1) is unknown)`, `$ ? (exists(@.a))`, `$ ? (exists(@.zz))`,
	`$.b ? (@ starts with "x")`, `$.b ? (@ like_regex "^x")`, `$.b ? (@ like_regex "X" flag "i")`,
	`$.a[0] + 1`, `$.a[0] - 1`, `$.a[0] * 2`, `$.a[1] / 2`, `$.a[1] % 2`, `-$.a[0]`, `+$.a[0]`, `-$.a[*]`,
	`$.a.size()`, `$.a.type()`, `$.a[0].double()`, `$.a[0].number()`, `$.a[0].integer()`, `$.a[0].bigint()`,
	`$.a[0].boolean()`, `$.a[0].string()`, `$.a[0].abs()`, `$.a[0].floor()`, `$.a[0].ceiling()`,
	`$.a[0].decimal(5,2)`, `$.keyvalue()`, `$.keyvalue().value`, `$.d.keyvalue().key`,
	`$.s.datetime()`, `$.s.timestamp_tz()`, `$.s.timestamp_tz().string()`, `$.s.time_tz()`,
	`$.s.datetime() == $.s.datetime()`, `$.s.datetime() > "2015-08-01".datetime()`,
	`$x`, `$x + 1`, `$.a[*] ? (@ == $x)`, `$.a[$x]`, `$.a[$.a[0]]`, `$.a[last ? (@ > 0)]`,
	`$.a == 1`, `$.a[*] == 2`, `($.a[0] == 1) is unknown`, `exists($.a)`, `!($.a == 1)`,
	`($.a[0] == 1) && ($.b == "x")`, `($.a[0] == 2) || ($.b == "x")`,
	`strict $.a`, `strict $.a[*]`, `strict $.a[0 to 1]`, `strict $.**.b`, `strict $.a[*] ? (@ > 1)`,
	`strict $.a.size()`, `strict exists($.a)`, `strict ($.a[0] == 1) is unknown`,
	`"abc"`, `1`, `1.5`, `true`, `null`, `1 + 2 * 3`, `(1 + 2).type()`, `"a".type()`, `null.type()`,
	`$[*] ? (@ ? (@ > 1) == 2)`, `$ ? (@.a[*] ? (@ > 1) > 0)`, `$.a[*] ? (@ > $.a[0])`,
}

func pool() []poolItem {
	var out []poolItem
	for _, p := range poolPaths {
		for _, d := range poolDocs {
			it := poolItem{Path: p, Doc: d, Vars: map[string]string{"x": "i:1"}, Zone: ""}
			out = append(out, it)
		}
	}
	// datetime comparisons that need the context zone
	for _, p := range []string{
		`$.s.datetime() > "2015-08-02".datetime()`,
		`$.s.timestamp()`, `$.s.date()`, `$.s.time()`,
		`"12:34:56".time_tz()`, `"2015-08-02".timestamp_tz()`,
	} {
		out = append(out, poolItem{Path: p, Doc: poolDocs[0], TZ: true, Zone: "America/New_York"})
		out = append(out, poolItem{Path: p, Doc: poolDocs[0], TZ: true, Zone: "+05:30"})
	}
	return out
}
