package main

// C20 — cancellation at every poll (fault-point enumeration, E6).

import (
	"context"
	"errors"
	"fmt"
	"sort"

	"github.com/theory/sqljson/path/exec"
)

// "cause": the context is a child of a context.WithCancelCause parent that is cancelled with a custom
// cause at the k-th poll: ctx.Err() is context.Canceled while context.Cause(ctx) is the custom error.
var ctxErrs = map[string]error{"canceled": context.Canceled, "deadline": context.DeadlineExceeded, "cause": context.Canceled}

var errC20Cause = errors.New("harness: custom cancellation cause")

// c20Polls runs the uncancelled call and returns the number of polls and the outcome.
func c20Run(c Case, k int64) (Out, *pollCtx, int) {
	p, err, pan := implParse(c.Path)
	if err != nil || pan != "" {
		panic(fmt.Sprintf("harness: pool path does not parse: %q: %v %s", c.Path, err, pan))
	}
	cfg := cfgOf(c)
	pc := newPollCtx(context.Background(), k, ctxErrs[c.Extra["err"]])
	if c.Extra["err"] == "cause" {
		parent, cancel := context.WithCancelCause(context.Background())
		defer cancel(nil)
		pc.parent = parent
		pc.onFire = func() { cancel(errC20Cause) }
	}
	cfg.ctx = pc
	doc := mustDoc(c.Doc, c.Num)
	out := implEntry(c.Entry, p, doc, cfg)
	return out, pc, astCount(p)
}

func outEqual(a, b Out) bool { return a.String() == b.String() }

func checkC20(c Case) *Failure {
	base, bpc, nodes := c20Run(c, -1)
	n := bpc.polls.Load()
	k := int64(c.K)
	out, pc, _ := c20Run(c, k)
	rule := c.Entry
	if out.Class == "panic" {
		return &Failure{Sig: "C20/panic/" + rule, Expected: "no panic", Observed: out.String()}
	}
	_ = base
	if k >= n || !pc.fired.Load() {
		// The "done" answer was never given in this run (with open member order the number of
		// polls before a failure can be smaller than in the uncancelled run): nothing to judge.
		return nil
	}
	ctxErr := ctxErrs[c.Extra["err"]]
	site := pollSite(c, k)
	switch {
	case out.Err == nil:
		return &Failure{Sig: "C20/cancellation-became-result/" + site, Expected: "error wrapping exec.ErrExecution and " + ctxErr.Error(),
			Observed: out.String()}
	case out.Err == exec.NULL: //nolint:errorlint
		return &Failure{Sig: "C20/cancellation-became-NULL/" + site, Expected: "error wrapping " + ctxErr.Error(), Observed: out.String()}
	case !errors.Is(out.Err, exec.ErrExecution) || !errors.Is(out.Err, ctxErr):
		return &Failure{Sig: "C20/wrong-error-chain/" + site, Expected: "errors.Is ErrExecution and " + ctxErr.Error(), Observed: out.String()}
	case errors.Is(out.Err, exec.ErrVerbose):
		return &Failure{Sig: "C20/cancellation-suppressible/" + site, Expected: "not ErrVerbose", Observed: out.String()}
	}
	if c.Entry == "query" && len(out.Items) > 0 || c.Entry == "first" && len(out.Items) > 0 && out.Items[0] != nil || out.Bool {
		return &Failure{Sig: "C20/items-with-cancellation/" + site, Expected: "no items", Observed: fmt.Sprintf("%v %v", out.Items, out.Bool)}
	}
	if post := pc.pollsPost.Load(); post > int64(nodes) {
		return &Failure{Sig: "C20/unbounded-steps-after-cancel/" + site, Expected: fmt.Sprintf("at most %d further polls", nodes), Observed: fmt.Sprint(post)}
	}
	return nil
}

func canonMultisetOut(o Out) string {
	if o.Items == nil {
		return fmt.Sprint(o.Bool)
	}
	return canonMultiset(o.Items)
}

// pollSite names the construct that was being evaluated when the k-th poll was
// answered "done": the innermost enclosing consumer kinds of the path text are
// not recoverable from outside, so the signature uses the path's shape class —
// which consumers of an error (is unknown, filter, exists, subscript list,
// connective) the path contains. This keeps one signature per defect site
// rather than one per (path, k).
func pollSite(c Case, k int64) string {
	p, _, _ := implParse(c.Path)
	s := astDump(p)
	site := ""
	for _, m := range []struct{ tag, pat string }{
		{"isunknown", "Un(2,"}, {"filter", "Un(5,"}, {"exists", "Un(0,"}, {"not", "Un(1,"},
		{"and", "Bin(0,"}, {"or", "Bin(1,"}, {"index", "Index("}, {"any", "Any("},
	} {
		if contains(s, m.pat) {
			site += m.tag + "+"
		}
	}
	if site == "" {
		site = "plain"
	}
	return site
}

func contains(s, sub string) bool {
	return len(sub) <= len(s) && (func() bool {
		for i := 0; i+len(sub) <= len(s); i++ {
			if s[i:i+len(sub)] == sub {
				return true
			}
		}
		return false
	})()
}

func runC20(r *Run) {
	r.Level = "fault_enumeration"
	r.Rule("for every (path, doc) of the pool, every entry point, kind of ended context (context.Canceled, context.DeadlineExceeded, and a child of a WithCancelCause parent cancelled with a custom cause), silent/verbose: the context reports done from the k-th Done() poll, for EVERY k in 0..n (n = polls of the uncancelled run); non-trivial = the done answer was actually observed (k < n); distinct = distinct (path, doc, entry, error, silent, k)")
	r.Assume("the executor learns about cancellation only through ctx.Done()/ctx.Err()", "pool paths cover every node kind; generated paths extend it in the thorough tier")
	items := pool()
	type job struct{ c Case }
	var jobs []Case
	for _, it := range items {
		for _, entry := range entryNames {
			for _, ek := range []string{"canceled", "deadline", "cause"} {
				for _, silent := range []bool{false, true} {
					jobs = append(jobs, Case{Rule: "cancel-at-poll-k", Path: it.Path, Doc: it.Doc, Num: "float64", Vars: it.Vars,
						Silent: silent, TZ: it.TZ, Zone: it.Zone, Entry: entry, Extra: map[string]string{"err": ek}})
				}
			}
		}
	}
	// generated programs: the full language up to 3 nodes, nested constructs, the condition pool as
	// filters, and the error-family chains; each on the three documents on which its uncancelled
	// Query polls most often (ties: first in enumeration order), so every reachable poll site is hit
	gen := newFullGen()
	ges := gen.all(3)
	ges = append(ges, gen.constructPairs()...)
	for _, cd := range condPool(6) {
		ges = append(ges, eRoot(sAnyArray(), sFilter(cd.e)))
	}
	if r.Thorough() {
		ges = append(ges, errorFamilyPaths(2)...)
	}
	gdocs := epDocs()
	gdocs = append(gdocs, makeDocs([]any{mustDoc(`[1]`, "float64"), mustDoc(`[1,2]`, "float64"), mustDoc(`[1,2,3,4]`, "float64"), mustDoc(`[1,2,3,4,5,6,7,8]`, "float64"),
		mustDoc(`{"a":[1,2,3,4,5,6,7,8],"b":[{"a":1},{"a":2},{"a":3},{"a":4}]}`, "float64")})...)
	gpaths := bothModes(ges)
	type pd struct {
		path string
		doc  string
	}
	chosen := make([][]pd, len(gpaths))
	r.ParFor(len(gpaths), func(i int) {
		text := gpaths[i].String()
		p, err, pan := parseCached(text)
		if err != nil || pan != "" {
			return
		}
		type cand struct {
			polls int64
			idx   int
		}
		var best []cand
		for di, d := range gdocs {
			pc := newPollCtx(nil, -1, nil)
			implQuery(p, d.f, runCfg{ctx: pc, vars: map[string]any{"x": int64(1)}})
			if n := pc.polls.Load(); n > 0 {
				best = append(best, cand{n, di})
			}
		}
		sort.SliceStable(best, func(a, b int) bool { return best[a].polls > best[b].polls })
		per := 2
		if r.Thorough() {
			per = 3
		}
		for k := 0; k < len(best) && k < per; k++ {
			chosen[i] = append(chosen[i], pd{text, gdocs[best[k].idx].text})
		}
	})
	gen2 := 0
	for ci, c := range chosen {
		for _, x := range c {
			gen2++
			for _, entry := range entryNames {
				eks := []string{"canceled", "deadline", "cause"}
				if !r.Thorough() {
					eks = eks[ci%3 : ci%3+1] // quick: the three kinds of ended context alternate over the generated programs
				}
				for _, ek := range eks {
					for _, silent := range []bool{false, true} {
						jobs = append(jobs, Case{Rule: "cancel-at-poll-k", Path: x.path, Doc: x.doc, Num: "float64", Vars: map[string]string{"x": "i:1"},
							Silent: silent, Entry: entry, Extra: map[string]string{"err": ek}})
					}
				}
			}
		}
	}
	r.Bound("pool_pairs", len(items))
	r.Bound("generated_path_document_pairs", gen2)
	r.Bound("jobs", len(jobs))
	r.ParFor(len(jobs), func(i int) {
		c := jobs[i]
		r.Note(i, c.Path+" | "+c.Doc+" | "+c.Entry)
		_, bpc, _ := c20Run(c, -1)
		n := bpc.polls.Load()
		for k := int64(0); k <= n; k++ {
			c.K = int(k)
			r.evals.Add(1)
			r.traces.Add(1)
			if f := checkC20(c); f != nil {
				r.Fail(c, f)
			}
			if k < n {
				r.Distinct(fmt.Sprintf("%s|%s|%s|%v|%s|%d", c.Path, c.Doc, c.Entry, c.Silent, c.Extra["err"], k))
			}
		}
		if i%97 == 0 {
			r.Sample(c)
		}
		r.transitions.Add(n + 1)
		r.states.Add(1)
		r.Outcome(fmt.Sprintf("polls=%d", n))
	})
}
