package main

// Adapter to the real implementation (built from /repo's working tree through
// the module replace): decode a Case, run an entry point with panic capture,
// classify the error, canonicalise results.

import (
	"bytes"
	"context"
	"encoding/json"
	"errors"
	"fmt"
	"math"
	"sort"
	"strconv"
	"strings"
	"sync"
	"time"
	_ "time/tzdata"

	"github.com/theory/sqljson/path"
	"github.com/theory/sqljson/path/exec"
	"github.com/theory/sqljson/path/types"
)

type implPath = path.Path

// ---------- decoding of case inputs ----------

func decodeDoc(text, num string) (any, error) {
	dec := json.NewDecoder(strings.NewReader(text))
	if num == "number" {
		dec.UseNumber()
	}
	var v any
	if err := dec.Decode(&v); err != nil {
		if num != "number" {
			// a number outside the double range exists as json.Number only: decode in number mode and
			// convert every representable number to float64
			d2 := json.NewDecoder(strings.NewReader(text))
			d2.UseNumber()
			if err2 := d2.Decode(&v); err2 == nil {
				return floatsWherePossible(v), nil
			}
		}
		return nil, err
	}
	return v, nil
}

func floatsWherePossible(v any) any {
	switch x := v.(type) {
	case json.Number:
		if f, err := strconv.ParseFloat(string(x), 64); err == nil {
			return f
		}
		return x
	case []any:
		for i := range x {
			x[i] = floatsWherePossible(x[i])
		}
	case map[string]any:
		for k := range x {
			x[k] = floatsWherePossible(x[k])
		}
	}
	return v
}

func mustDoc(text, num string) any {
	v, err := decodeDoc(text, num)
	if err != nil {
		panic(fmt.Sprintf("harness: bad doc %q: %v", text, err))
	}
	return v
}

// decodeTagged decodes "i:5", "f:1.5", "n:1e400", "s:text", "j:<json>".
func decodeTagged(s, num string) any {
	if len(s) < 2 || s[1] != ':' {
		panic("harness: bad tagged value " + s)
	}
	body := s[2:]
	switch s[0] {
	case 'i':
		n, err := strconv.ParseInt(body, 10, 64)
		if err != nil {
			panic(err)
		}
		return n
	case 'f':
		f, err := strconv.ParseFloat(body, 64)
		if err != nil {
			panic(err)
		}
		return f
	case 'n':
		return json.Number(body)
	case 's':
		return body
	case 'j':
		return mustDoc(body, num)
	}
	panic("harness: bad tag " + s)
}

func encodeTagged(v any) string {
	switch v := v.(type) {
	case int64:
		return "i:" + strconv.FormatInt(v, 10)
	case float64:
		return "f:" + strconv.FormatFloat(v, 'g', -1, 64)
	case json.Number:
		return "n:" + string(v)
	default:
		return "j:" + toJSON(v)
	}
}

func toJSON(v any) string {
	var b bytes.Buffer
	enc := json.NewEncoder(&b)
	enc.SetEscapeHTML(false)
	if err := enc.Encode(v); err != nil {
		return fmt.Sprintf("%#v", v)
	}
	return strings.TrimRight(b.String(), "\n")
}

var zoneCache sync.Map

func zoneOf(name string) *time.Location {
	if v, ok := zoneCache.Load(name); ok {
		return v.(*time.Location)
	}
	z := zoneOf0(name)
	zoneCache.Store(name, z)
	return z
}

func zoneOf0(name string) *time.Location {
	switch name {
	case "":
		return nil
	case "UTC":
		return time.UTC
	}
	if i := strings.Index(name, "<-"); i >= 0 {
		// "A<-B": a context that carried zone B and was then given zone A: the zone in force is A
		return zoneOf(name[:i])
	}
	if name[0] == '+' || name[0] == '-' {
		sign := 1
		if name[0] == '-' {
			sign = -1
		}
		hh, _ := strconv.Atoi(name[1:3])
		mm := 0
		if len(name) >= 6 {
			mm, _ = strconv.Atoi(name[4:6])
		}
		return time.FixedZone(name, sign*(hh*3600+mm*60))
	}
	loc, err := time.LoadLocation(name)
	if err != nil {
		panic("harness: zone " + name + ": " + err.Error())
	}
	return loc
}

// ---------- options / context ----------

type runCfg struct {
	silent bool
	tz     bool
	zone   string
	vars   exec.Vars
	ctx    context.Context // optional override (poll/scheduler contexts)
}

func (c runCfg) opts() []exec.Option {
	var o []exec.Option
	if c.vars != nil {
		o = append(o, exec.WithVars(c.vars))
	}
	if c.silent {
		o = append(o, exec.WithSilent())
	}
	if c.tz {
		o = append(o, exec.WithTZ())
	}
	return o
}

func (c runCfg) context() context.Context {
	ctx := c.ctx
	if ctx == nil {
		ctx = context.Background()
	}
	if i := strings.Index(c.zone, "<-"); i >= 0 {
		if inner := zoneOf(c.zone[i+2:]); inner != nil {
			ctx = types.ContextWithTZ(ctx, inner)
		}
	}
	if z := zoneOf(c.zone); z != nil {
		ctx = types.ContextWithTZ(ctx, z)
	}
	return ctx
}

func cfgOf(c Case) runCfg {
	cfg := runCfg{silent: c.Silent, tz: c.TZ, zone: c.Zone}
	if c.Vars != nil {
		cfg.vars = exec.Vars{}
		for k, v := range c.Vars {
			cfg.vars[k] = decodeTagged(v, c.Num)
		}
	}
	return cfg
}

// ---------- outcomes ----------

// Out is the observable outcome of one entry-point call.
type Out struct {
	Items []any // Query: items; First: one item (or none when nil,nil... see FirstNil)
	Bool  bool  // Exists/Match/ExistsOrMatch
	Err   error
	Class string // ok | soft | hard | invalid | null | panic | other
	Panic string
}

func classify(err error) string {
	switch {
	case err == nil:
		return "ok"
	case err == exec.NULL: //nolint:errorlint
		return "null"
	case errors.Is(err, exec.ErrInvalid):
		return "invalid"
	case errors.Is(err, exec.ErrVerbose):
		return "soft"
	case errors.Is(err, exec.ErrExecution):
		return "hard"
	}
	return "other"
}

func (o Out) String() string {
	switch o.Class {
	case "ok":
		if o.Items != nil {
			return "ok " + canonList(o.Items)
		}
		return fmt.Sprintf("ok %v", o.Bool)
	case "panic":
		return "panic: " + o.Panic
	default:
		s := o.Class
		if o.Err != nil {
			s += " (" + o.Err.Error() + ")"
		}
		return s
	}
}

func guard(o *Out) {
	if r := recover(); r != nil {
		o.Class = "panic"
		o.Panic = fmt.Sprint(r)
		if len(o.Panic) > 200 {
			o.Panic = o.Panic[:200]
		}
	}
}

func implParse(text string) (p *path.Path, err error, panicked string) {
	defer func() {
		if r := recover(); r != nil {
			panicked = fmt.Sprint(r)
			p = nil
		}
	}()
	p, err = path.Parse(text)
	return
}

func implQuery(p *path.Path, doc any, cfg runCfg) (o Out) {
	defer guard(&o)
	items, err := p.Query(cfg.context(), doc, cfg.opts()...)
	o.Err = err
	o.Class = classify(err)
	if err == nil {
		if items == nil {
			items = []any{}
		}
		o.Items = items
	} else if items != nil {
		o.Items = items
	}
	return
}

func implFirst(p *path.Path, doc any, cfg runCfg) (o Out) {
	defer guard(&o)
	item, err := p.First(cfg.context(), doc, cfg.opts()...)
	o.Err = err
	o.Class = classify(err)
	o.Items = []any{item}
	return
}

func implExists(p *path.Path, doc any, cfg runCfg) (o Out) {
	defer guard(&o)
	b, err := p.Exists(cfg.context(), doc, cfg.opts()...)
	o.Err, o.Bool, o.Class = err, b, classify(err)
	return
}

func implMatch(p *path.Path, doc any, cfg runCfg) (o Out) {
	defer guard(&o)
	b, err := p.Match(cfg.context(), doc, cfg.opts()...)
	o.Err, o.Bool, o.Class = err, b, classify(err)
	return
}

func implExistsOrMatch(p *path.Path, doc any, cfg runCfg) (o Out) {
	defer guard(&o)
	b, err := p.ExistsOrMatch(cfg.context(), doc, cfg.opts()...)
	o.Err, o.Bool, o.Class = err, b, classify(err)
	return
}

var entryNames = []string{"query", "first", "exists", "match", "existsormatch"}

func implEntry(entry string, p *path.Path, doc any, cfg runCfg) Out {
	switch entry {
	case "query":
		return implQuery(p, doc, cfg)
	case "first":
		return implFirst(p, doc, cfg)
	case "exists":
		return implExists(p, doc, cfg)
	case "match":
		return implMatch(p, doc, cfg)
	case "existsormatch":
		return implExistsOrMatch(p, doc, cfg)
	}
	panic("harness: entry " + entry)
}

// ---------- canonical forms ----------

// canon renders a value with numbers by value (int64 / json.Number / float64 that
// denote the same double-or-integer print the same), datetimes by kind and
// fields, objects with sorted keys. keyvalue ids are kept; see canonNoID.
func canon(v any) string {
	var b strings.Builder
	writeCanon(&b, v, false)
	return b.String()
}

// canonNoID is canon with the "id" member of {key,value,id} triples masked.
func canonNoID(v any) string {
	var b strings.Builder
	writeCanon(&b, v, true)
	return b.String()
}

func canonList(items []any) string {
	parts := make([]string, len(items))
	for i, it := range items {
		parts[i] = canonNoID(it)
	}
	return "[" + strings.Join(parts, ", ") + "]"
}

func canonMultiset(items []any) string {
	parts := make([]string, len(items))
	for i, it := range items {
		parts[i] = canonNoID(it)
	}
	sort.Strings(parts)
	return "{" + strings.Join(parts, ", ") + "}"
}

func numCanon(v any) string {
	switch v := v.(type) {
	case int64:
		return strconv.FormatInt(v, 10)
	case float64:
		return floatCanon(v)
	case json.Number:
		if i, err := v.Int64(); err == nil {
			return strconv.FormatInt(i, 10)
		}
		if f, err := v.Float64(); err == nil {
			return floatCanon(f)
		}
		return "badnum(" + string(v) + ")"
	}
	return "notnum"
}

func floatCanon(f float64) string {
	if math.IsNaN(f) {
		return "NaN"
	}
	if math.IsInf(f, 0) {
		if f > 0 {
			return "+Inf"
		}
		return "-Inf"
	}
	if f == math.Trunc(f) && math.Abs(f) < 9.2e18 {
		return strconv.FormatInt(int64(f), 10)
	}
	return strconv.FormatFloat(f, 'g', -1, 64)
}

func isKVTriple(m map[string]any) bool {
	if len(m) != 3 {
		return false
	}
	_, a := m["key"]
	_, b := m["value"]
	_, c := m["id"]
	return a && b && c
}

func writeCanon(b *strings.Builder, v any, maskID bool) {
	switch v := v.(type) {
	case nil:
		b.WriteString("null")
	case bool:
		if v {
			b.WriteString("true")
		} else {
			b.WriteString("false")
		}
	case int64, float64, json.Number:
		b.WriteString("#" + numCanon(v))
	case string:
		b.WriteString(strconv.Quote(v))
	case []any:
		b.WriteByte('[')
		for i, e := range v {
			if i > 0 {
				b.WriteByte(',')
			}
			writeCanon(b, e, maskID)
		}
		b.WriteByte(']')
	case map[string]any:
		keys := make([]string, 0, len(v))
		for k := range v {
			keys = append(keys, k)
		}
		sort.Strings(keys)
		kv := maskID && isKVTriple(v)
		b.WriteByte('{')
		for i, k := range keys {
			if i > 0 {
				b.WriteByte(',')
			}
			b.WriteString(strconv.Quote(k))
			b.WriteByte(':')
			if kv && k == "id" {
				b.WriteString("ID")
			} else {
				writeCanon(b, v[k], maskID)
			}
		}
		b.WriteByte('}')
	case *types.Date:
		b.WriteString("date(" + fieldsOf(v.GoTime(), true, false, false) + ")")
	case *types.Time:
		b.WriteString("time(" + fieldsOf(v.GoTime(), false, true, false) + ")")
	case *types.TimeTZ:
		b.WriteString("timetz(" + fieldsOf(v.GoTime(), false, true, true) + ")")
	case *types.Timestamp:
		b.WriteString("timestamp(" + fieldsOf(v.GoTime(), true, true, false) + ")")
	case *types.TimestampTZ:
		b.WriteString("timestamptz(" + fieldsOf(v.GoTime(), true, true, true) + ")")
	case refDT:
		b.WriteString(v.canon())
	case refID:
		b.WriteString("RAWID")
	default:
		fmt.Fprintf(b, "?%T(%v)", v, v)
	}
}

func fieldsOf(t time.Time, date, clock, zone bool) string {
	var s string
	if date {
		s = fmt.Sprintf("%04d-%02d-%02d", t.Year(), int(t.Month()), t.Day())
	}
	if clock {
		if date {
			s += "T"
		}
		s += fmt.Sprintf("%02d:%02d:%02d.%09d", t.Hour(), t.Minute(), t.Second(), t.Nanosecond())
	}
	if zone {
		_, off := t.Zone()
		sign := "+"
		if off < 0 {
			sign = "-"
			off = -off
		}
		s += fmt.Sprintf("%s%02d:%02d:%02d", sign, off/3600, off/60%60, off%60)
	}
	return s
}

// deepCopy copies JSON-like values (used for before/after snapshots).
func deepCopy(v any) any {
	switch v := v.(type) {
	case []any:
		out := make([]any, len(v))
		for i, e := range v {
			out[i] = deepCopy(e)
		}
		return out
	case map[string]any:
		out := make(map[string]any, len(v))
		for k, e := range v {
			out[k] = deepCopy(e)
		}
		return out
	case exec.Vars:
		out := make(exec.Vars, len(v))
		for k, e := range v {
			out[k] = deepCopy(e)
		}
		return out
	default:
		return v
	}
}

// canonTyped is canon with the Go representation of numbers kept apart.
func canonTyped(v any) string {
	switch v := v.(type) {
	case int64:
		return "i" + strconv.FormatInt(v, 10)
	case float64:
		return "f" + strconv.FormatFloat(v, 'g', -1, 64)
	case json.Number:
		return "n" + string(v)
	case []any:
		parts := make([]string, len(v))
		for i, e := range v {
			parts[i] = canonTyped(e)
		}
		return "[" + strings.Join(parts, ",") + "]"
	case map[string]any:
		keys := make([]string, 0, len(v))
		for k := range v {
			keys = append(keys, k)
		}
		sort.Strings(keys)
		parts := make([]string, len(keys))
		for i, k := range keys {
			parts[i] = strconv.Quote(k) + ":" + canonTyped(v[k])
		}
		return "{" + strings.Join(parts, ",") + "}"
	case exec.Vars:
		return canonTyped(map[string]any(v))
	default:
		return canon(v)
	}
}
