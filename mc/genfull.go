package main

// Full-language program generator: every abstract path with at most n nodes
// over the primaries, accessors, methods, operators and predicates of the
// language (sizes: a primary or a step counts one node; operators add their
// operands; a filter adds its condition).

type gctx int

const (
	gTop    gctx = iota // $-rooted, no @, no last
	gFilter             // @ available
)

type fullGen struct {
	steps     []*Expr
	exprMemo  map[[2]int][]*Expr
	predMemo  map[[2]int][]*Expr
	withDT    bool
	withRegex bool
}

func newFullGen() *fullGen {
	g := &fullGen{exprMemo: map[[2]int][]*Expr{}, predMemo: map[[2]int][]*Expr{}}
	g.steps = []*Expr{
		sKey("a"), sKey("b"), sAnyKey(), sAnyArray(), sIndex(sub1(eInt(0))), sIndex(sub1(eLast())), sIndex(subR(eInt(0), eInt(1))),
		sIndex(sub1(eInt(0)), sub1(eInt(1))), sAny(0, -1), sAny(1, 1),
		sMethod("type"), sMethod("size"), sMethod("double"), sMethod("number"), sMethod("integer"), sMethod("bigint"), sMethod("boolean"),
		sMethod("string"), sMethod("abs"), sMethod("floor"), sMethod("ceiling"), sMethod("keyvalue"),
		sDecimal(nil, nil), sDecimal(i64(2), i64(1)),
		sDT("datetime", nil), sDT("date", nil), sDT("time", nil), sDT("time_tz", nil), sDT("timestamp", nil), sDT("timestamp_tz", nil), sDT("timestamp", i64(1)),
	}
	return g
}

func (g *fullGen) primaries(c gctx) []*Expr {
	p := []*Expr{eRoot(), eVar("x"), eInt(1), eNum(1.5), eStr("a"), eTrue(), eNull()}
	if c == gFilter {
		p = append([]*Expr{eCur()}, p...)
	}
	return p
}

// exprs returns every value expression with exactly n nodes.
func (g *fullGen) exprs(n int, c gctx) []*Expr {
	if n < 1 {
		return nil
	}
	key := [2]int{n, int(c)}
	if v, ok := g.exprMemo[key]; ok {
		return v
	}
	var out []*Expr
	if n == 1 {
		out = g.primaries(c)
	} else {
		// chain: a smaller expression plus one plain step
		for _, h := range g.exprs(n-1, c) {
			for _, s := range g.steps {
				out = append(out, h.withSteps(s))
			}
		}
		// chain: a smaller expression plus a filter step (1 + condition)
		for k := 2; k <= n-2; k++ {
			for _, h := range g.exprs(n-1-k, c) {
				for _, p := range g.preds(k, gFilter) {
					out = append(out, h.withSteps(sFilter(p)))
				}
			}
		}
		// predicate used as a path head with steps: (pred).step
		for k := 2; k <= n-1; k++ {
			if n-k == 1 {
				for _, p := range g.preds(k, c) {
					for _, s := range []*Expr{sMethod("type"), sMethod("boolean"), sMethod("string")} {
						out = append(out, p.withSteps(s))
					}
				}
			}
		}
		// unary
		for _, a := range g.exprs(n-1, c) {
			if len(a.Steps) == 0 && (a.K == KInt || a.K == KNum) {
				continue // folds into a literal
			}
			out = append(out, eNeg(a), ePos(a))
		}
		// binary arithmetic
		for l := 1; l <= n-2; l++ {
			for _, a := range g.exprs(l, c) {
				for _, b := range g.exprs(n-1-l, c) {
					for _, op := range []string{"+", "-", "*", "/", "%"} {
						out = append(out, eArith(op, a, b))
					}
				}
			}
		}
	}
	g.exprMemo[key] = out
	return out
}

// preds returns every predicate with exactly n nodes.
func (g *fullGen) preds(n int, c gctx) []*Expr {
	if n < 2 {
		return nil
	}
	key := [2]int{n, int(c)}
	if v, ok := g.predMemo[key]; ok {
		return v
	}
	var out []*Expr
	for _, a := range g.exprs(n-1, c) {
		out = append(out, eExists(a), eLikeRegex(a, "^a", ""), eStartsWith(a, eStr("a")), eStartsWith(a, eVar("x")))
	}
	for _, p := range g.preds(n-1, c) {
		out = append(out, eNot(p), eIsUnknown(p))
	}
	for l := 1; l <= n-2; l++ {
		for _, a := range g.exprs(l, c) {
			for _, b := range g.exprs(n-1-l, c) {
				for _, op := range []string{"==", "!=", "<", "<=", ">", ">="} {
					out = append(out, eCmp(op, a, b))
				}
			}
		}
	}
	for l := 2; l <= n-3; l++ {
		for _, p := range g.preds(l, c) {
			for _, q := range g.preds(n-1-l, c) {
				out = append(out, eAnd(p, q), eOr(p, q))
			}
		}
	}
	g.predMemo[key] = out
	return out
}

// all returns every top-level path (expression or predicate check) with at most n nodes.
func (g *fullGen) all(n int) []*Expr {
	var out []*Expr
	for k := 1; k <= n; k++ {
		out = append(out, g.exprs(k, gTop)...)
		out = append(out, g.preds(k, gTop)...)
	}
	return out
}

func exprUses(e *Expr, f func(*Expr) bool) bool {
	if e == nil {
		return false
	}
	if f(e) {
		return true
	}
	if exprUses(e.A, f) || exprUses(e.B, f) {
		return true
	}
	for _, s := range e.Subs {
		if exprUses(s.From, f) || exprUses(s.To, f) {
			return true
		}
	}
	for _, s := range e.Steps {
		if exprUses(s, f) {
			return true
		}
	}
	return false
}

func usesVar(e *Expr) bool { return exprUses(e, func(x *Expr) bool { return x.K == KVar }) }
func usesDT(e *Expr) bool  { return exprUses(e, func(x *Expr) bool { return x.K == KDT }) }

// constructPairs: every construct directly inside / after every other construct
// (filters, subscripts, operands), beyond what the node bound reaches.
func (g *fullGen) constructPairs() []*Expr {
	var out []*Expr
	conds := g.preds(2, gFilter)
	conds = append(conds, g.preds(3, gFilter)...)
	for _, p := range conds {
		out = append(out, eRoot(sFilter(p)), eRoot(sAnyArray(), sFilter(p)), eRoot(sFilter(p), sKey("a")), eRoot(sKey("a"), sFilter(p)))
	}
	// subscripts with expressions
	subs := []*Expr{eRoot(sKey("a")), eRoot(sIndex(sub1(eInt(0)))), eRoot(sMethod("size")), eVar("x"), eStr("a"), eNull(), lastMinus(1), eArith("+", eInt(0), eInt(1)), eNum(0.5), eNeg(eInt(1))}
	for _, s := range subs {
		out = append(out, eRoot(sIndex(sub1(s))), eRoot(sIndex(subR(eInt(0), s))), eRoot(sKey("a"), sIndex(sub1(s))), eRoot(sIndex(sub1(s)), sKey("a")))
	}
	return out
}
