package main

// C05 — execution is total and pure, and its errors are classified.

import (
	"context"
	"encoding/json"
	"fmt"
	"math"
	"strings"

	"github.com/theory/sqljson/path/exec"
)

func collectPtrs(v any, set map[uintptr]bool) {
	switch x := v.(type) {
	case []any:
		if p := ptrOf(x); p != 0 {
			set[p] = true
		}
		for _, e := range x {
			collectPtrs(e, set)
		}
	case map[string]any:
		if p := ptrOf(x); p != 0 {
			set[p] = true
		}
		for _, e := range x {
			collectPtrs(e, set)
		}
	case exec.Vars:
		for _, e := range x {
			collectPtrs(e, set)
		}
	}
}

// resultInvariants: finite numbers; containers are sub-values of the inputs or keyvalue triples.
func resultInvariants(items []any, ptrs map[uintptr]bool) string {
	var walk func(v any, top bool) string
	walk = func(v any, top bool) string {
		switch x := v.(type) {
		case float64:
			if math.IsNaN(x) || math.IsInf(x, 0) {
				return "non-finite number in the result"
			}
		case []any:
			if len(x) > 0 && !ptrs[ptrOf(x)] {
				return "array in the result that is not a sub-value of the input: " + canon(x)
			}
		case map[string]any:
			if isKVTriple(x) {
				if f, ok := x["id"].(float64); ok && (math.IsNaN(f) || math.IsInf(f, 0)) {
					return "non-finite keyvalue id"
				}
				return walk(x["value"], false)
			}
			if len(x) > 0 && !ptrs[ptrOf(x)] {
				return "object in the result that is not a sub-value of the input: " + canon(x)
			}
		}
		return ""
	}
	for _, it := range items {
		if s := walk(it, true); s != "" {
			return s
		}
	}
	return ""
}

func c05Invariants(outs map[string]Out, ptrs map[uintptr]bool, tag string) *Failure {
	for _, name := range entryNames {
		o, ok := outs[name]
		if !ok {
			continue
		}
		switch o.Class {
		case "panic":
			return &Failure{Sig: "C05/panic/" + classifyPanic(o.Panic), Expected: "no panic", Observed: name + ": " + o.String()}
		case "invalid":
			site := "other"
			if o.Err != nil {
				site = sanitizeSig(o.Err.Error())
			}
			_ = tag
			return &Failure{Sig: "C05/errinvalid/" + site, Expected: "never ErrInvalid for a parser-produced path", Observed: name + ": " + o.String()}
		case "other":
			return &Failure{Sig: "C05/unclassified-error/" + tag, Expected: "error wrapping exec.ErrExecution", Observed: name + ": " + o.String()}
		case "null":
			if name == "query" || name == "first" {
				return &Failure{Sig: "C05/null-from-" + name, Expected: "NULL only from Exists/Match/ExistsOrMatch", Observed: o.String()}
			}
		case "ok":
			if name == "query" || name == "first" {
				if s := resultInvariants(o.Items, ptrs); s != "" {
					return &Failure{Sig: "C05/result-invariant/" + strings.SplitN(s, ":", 2)[0], Expected: "finite numbers; containers are sub-values of the input or keyvalue triples", Observed: name + ": " + s}
				}
			}
		}
	}
	return nil
}

func classifyPanic(msg string) string {
	switch {
	case strings.Contains(msg, "strconv"):
		return "strconv"
	case strings.Contains(msg, "index out of range"), strings.Contains(msg, "slice bounds"):
		return "index"
	case strings.Contains(msg, "nil pointer"):
		return "nil"
	}
	return "other"
}

func outsMap(e epOuts) map[string]Out {
	return map[string]Out{"query": e.q, "first": e.f, "exists": e.e, "match": e.m, "existsormatch": e.x}
}

func c05Oracle(ec *epCase) *Failure {
	ptrs := map[uintptr]bool{}
	collectPtrs(ec.doc, ptrs)
	collectPtrs(ec.cfg.vars, ptrs)
	tag := shapeOf(ec.p)
	if f := c05Invariants(outsMap(ec.verbose), ptrs, tag); f != nil {
		return c05Known(ec, f)
	}
	if f := c05Invariants(outsMap(ec.silent), ptrs, tag); f != nil {
		return c05Known(ec, f)
	}
	// purity: the queried value and the variables equal an independent fresh decode, and their
	// fingerprint (which includes the hidden capacity of every slice) is what it was before the calls
	if ec.fpBefore != 0 && fingerprint(ec.doc, map[string]any(ec.cfg.vars)) != ec.fpBefore {
		return &Failure{Sig: "C05/input-storage-modified", Expected: "document and variables untouched, including slice storage beyond len", Observed: "fingerprint changed"}
	}
	if want := canonTyped(mustDoc(ec.c.Doc, ec.c.Num)); canonTyped(ec.doc) != want {
		return &Failure{Sig: "C05/document-modified", Expected: want, Observed: canonTyped(ec.doc)}
	}
	if ec.c.Vars != nil {
		fresh := cfgOf(ec.c).vars
		if canonTyped(ec.cfg.vars) != canonTyped(fresh) {
			return &Failure{Sig: "C05/variables-modified", Expected: canonTyped(fresh), Observed: canonTyped(ec.cfg.vars)}
		}
	}
	return nil
}

func c05Known(ec *epCase, f *Failure) *Failure {
	if strings.HasPrefix(f.Sig, "C05/errinvalid/") {
		// the recorded defect: a datetime on the left of a comparison with a non-datetime on the right
		rc := newRefCtx(ec.p.Strict, ec.doc, map[string]any(ec.cfg.vars), ec.c.TZ, zoneOf(ec.c.Zone))
		rc.quirk = "datetime-vs-other-errinvalid"
		if ro := refQuery(ec.p, rc); ro.class() == "invalid" {
			return &Failure{Sig: "C05/known/datetime-vs-other-errinvalid", Expected: f.Expected, Observed: f.Observed}
		}
	}
	return f
}

func checkC05(c Case) *Failure {
	if c.Rule == "type-matrix" {
		return c05Matrix(c)
	}
	return c05Oracle(epReplay(c))
}

// ---- type-pair matrix and hostile numbers ----

type c05Operand struct {
	name   string
	tag    string
	suffix string
}

func c05Operands() []c05Operand {
	ops := []c05Operand{
		{"null", "j:null", ""}, {"bool", "j:true", ""}, {"int64", "i:2", ""}, {"float64", "f:2.5", ""}, {"json.Number", "n:3", ""}, {"string", "s:abc", ""},
		{"numstring", "s:12", ""}, {"array", `j:[1,"a"]`, ""}, {"emptyarray", `j:[]`, ""}, {"object", `j:{"a":1}`, ""},
		{"date", "s:2015-08-02", ".date()"}, {"time", "s:12:34:56", ".time()"}, {"timetz", "s:12:34:56+05:30", ".time_tz()"},
		{"timestamp", "s:2015-08-02T12:34:56", ".timestamp()"}, {"timestamptz", "s:2015-08-02T12:34:56+00:00", ".timestamp_tz()"},
	}
	hostile := []string{"1e400", "-1e400", "1e-400", "9223372036854775808", "-9223372036854775809", "1E2", "-0", "0.0", "0e0",
		"1234567890123456789012345678901234567890", "0." + strings.Repeat("1234567890", 40), "1e308", "2147483648", "-2147483649", "1.7976931348623157e308", "4.9e-324",
		"1e1000001", "-1e1000001", "1e-1000001", "2e400", "1e999999999999", "-9223372036854775808", "9007199254740993", "0e999999999999", "1" + strings.Repeat("0", 1000)}
	for _, h := range hostile {
		ops = append(ops, c05Operand{"hostile(" + h[:min(len(h), 12)] + ")", "n:" + h, ""})
	}
	// strings at the edges of every parser behind a method (number, integer, boolean, datetime)
	for _, h := range []string{"2023-02-30", "2015-13-01", "0000-00-00", "2015-08-32", "2015-02-29", "2016-02-29", "9999-12-31", "10000-01-01", "24:00:00", "12:60:00", "12:34:60", "23:59:59.9999999",
		"2015-08-02T24:00:00", "2015-02-30T12:00:00+00", "12:34:56+15:00", "12:34:56-00:60", "2015-08-02 12:34", "+2015-08-02", "2015-8-2"} {
		ops = append(ops, c05Operand{"hostile-datetime(" + h + ")", "s:" + h, ""})
	}
	for _, h := range []string{"", " ", "+", "-", ".", "e", "0x", "0x1F", "0b", "0o7", "1_0", "010", "+1", "-", "1e", "1e+", "inf", "-Infinity", "NaN", "nan", "t", "T", "tru", "yes", "on", "0", "1", "00", "-0",
		"9223372036854775808", "1e400", "2015", "2015-08", "24:00:00", "12:34:56+", "12:34:56+24", "2015-08-02T", "\u0000", "\ufffd", strings.Repeat("9", 400)} {
		ops = append(ops, c05Operand{"hostile-string(" + h[:min(len(h), 12)] + ")", "s:" + h, ""})
	}
	return ops
}

func c05MatrixPaths(a, b c05Operand) []string {
	A, B := "$a"+a.suffix, "$b"+b.suffix
	var out []string
	for _, op := range []string{"==", "!=", "<", "<=", ">", ">=", "+", "-", "*", "/", "%", "starts with"} {
		if op == "starts with" {
			out = append(out, A+" starts with $b")
			continue
		}
		out = append(out, A+" "+op+" "+B)
	}
	out = append(out, "$c["+A+"]", "$c["+A+" to "+B+"]", "$c ? (@ == "+A+" && @ < "+B+")", "("+A+" == "+B+") || ("+A+" < "+B+")",
		"$c ? ("+A+" > @)", "exists("+A+" ? (@ == "+B+"))", "!("+A+" >= "+B+")", "("+A+" > "+B+") is unknown")
	return out
}

func c05UnaryPaths(a c05Operand) []string {
	A := "$a" + a.suffix
	out := []string{"-" + A, "+" + A, A + ` like_regex "1"`, A + ".decimal(3,1)", A + ".decimal(1000,1000)", A + ".decimal(1,-1000)", A + ".decimal(1000)", A + ".decimal(10,-2)",
		A + ".**", A + ".*", A + "[*]", A + "[0]", A + "[last]", A + ".a", A + ".datetime()", A + ".date()", A + ".time()", A + ".time_tz()", A + ".timestamp()", A + ".timestamp_tz()", A + ".time(3)"}
	for _, m := range []string{"type", "size", "double", "number", "integer", "bigint", "boolean", "string", "abs", "floor", "ceiling", "keyvalue"} {
		out = append(out, A+"."+m+"()")
	}
	// whatever a datetime method delivers is a usable item: the steps and operators after it
	for _, m := range []string{"datetime", "date", "time", "time_tz", "timestamp", "timestamp_tz"} {
		d := A + "." + m + "()"
		out = append(out, d+".string()", d+".type()", d+" == "+d, d+" < "+A, "$c ? (@ == "+d+")", "exists("+d+" ? (@ > "+d+"))", d+".timestamp_tz().string()", "-"+d)
	}
	return out
}

// c05RegexPaths: like_regex over every pattern of <= 3 symbols from an alphabet of metacharacters,
// quoting sequences and letters x flag sets (the q flag makes the pattern literal), executed, not only parsed.
func c05RegexPaths() []string {
	alpha := []string{"a", ".", "*", "(", ")", "[", "]", "{", "}", "|", "^", "$", "+", "?", `\\`, `\\E`, `\\Q`, `\\d`, `\\b`, "é"}
	pats := allStrings("regex", alpha, 3)
	var out []string
	for i := 0; i < pats.count; i++ {
		for _, f := range []string{"", "q", "iq", "i", "sq", "x"} {
			t := `$a like_regex "` + pats.at(i) + `"`
			if f != "" {
				t += ` flag "` + f + `"`
			}
			out = append(out, t)
		}
	}
	return out
}

func c05Matrix(c Case) *Failure {
	vars := exec.Vars{}
	for k, v := range c.Vars {
		vars[k] = decodeTagged(v, "float64")
	}
	p, err, pan := parseCached(c.Path)
	if err != nil || pan != "" {
		return &Failure{Sig: "C05/matrix-parse", Expected: "parses", Observed: fmt.Sprint(c.Path, " ", err, pan)}
	}
	cfg := runCfg{vars: vars, tz: c.TZ, silent: c.Silent}
	before := canonTyped(vars)
	ptrs := map[uintptr]bool{}
	collectPtrs(vars, ptrs)
	outs := outsMap(runEntryPoints(p, nil, cfg))
	tag := c.Extra["kinds"]
	if f := c05Invariants(outs, ptrs, tag); f != nil {
		usesDT := false
		for _, m := range []string{".datetime(", ".date(", ".time(", ".time_tz(", ".timestamp(", ".timestamp_tz("} {
			usesDT = usesDT || strings.Contains(c.Path, m)
		}
		if strings.HasPrefix(f.Sig, "C05/errinvalid/") && (c.Extra["dtleft"] == "1" || usesDT) && strings.Contains(f.Observed, "unrecognized SQL/JSON datetime type") {
			return &Failure{Sig: "C05/known/datetime-vs-other-errinvalid", Expected: f.Expected, Observed: f.Observed}
		}
		return f
	}
	if canonTyped(vars) != before {
		return &Failure{Sig: "C05/variables-modified", Expected: before, Observed: canonTyped(vars)}
	}
	return nil
}

func isDTOperand(o c05Operand) bool { return o.suffix != "" }

// c05RepeatedOptions: WithVars (and the flag options) given twice or three times in one call, on every
// entry point: no panic, the usual error contract, and none of the maps modified (each is compared with
// an independent fresh decode).
func c05RepeatedOptions(r *Run) {
	mk := func() []exec.Vars {
		return []exec.Vars{{"a": float64(1), "c": []any{float64(1), "a"}}, {"b": "x", "a": float64(2)}, {}, nil, {"a": nil, "b": map[string]any{"k": float64(1)}}}
	}
	texts := []string{`$a`, `$a + 1`, `$b`, `$c[*] ? (@ == $a)`, `$ ? ($a == 1 && $b == "x")`, `$missing`, `$b.k`, `strict $c[$a]`}
	for _, t := range texts {
		p, err, pan := parseCached(t)
		if err != nil || pan != "" {
			panic("harness: " + t)
		}
		n := len(mk())
		for i := 0; i < n; i++ {
			for j := 0; j < n; j++ {
				for k := -1; k < n; k++ {
					maps := mk()
					want := make([]string, n)
					for x := range maps {
						want[x] = canonTyped(maps[x])
					}
					opts := []exec.Option{exec.WithVars(maps[i]), exec.WithSilent(), exec.WithVars(maps[j]), exec.WithTZ(), exec.WithTZ()}
					if k >= 0 {
						opts = append(opts, exec.WithVars(maps[k]), exec.WithSilent())
					}
					r.evals.Add(1)
					r.traces.Add(5)
					c := Case{Rule: "repeated-options", Path: t, Extra: map[string]string{"i": fmt.Sprint(i), "j": fmt.Sprint(j), "k": fmt.Sprint(k)}}
					func() {
						defer func() {
							if rec := recover(); rec != nil {
								r.Fail(c, &Failure{Sig: "C05/repeated-options/panic", Expected: "no panic", Observed: fmt.Sprint(rec)})
							}
						}()
						ctx := context.Background()
						_, _ = p.Query(ctx, nil, opts...)
						_, _ = p.First(ctx, nil, opts...)
						_, _ = p.Exists(ctx, nil, opts...)
						_, _ = p.Match(ctx, nil, opts...)
						_, _ = p.ExistsOrMatch(ctx, nil, opts...)
					}()
					for x := range maps {
						if got := canonTyped(maps[x]); got != want[x] {
							r.Fail(c, &Failure{Sig: "C05/repeated-options/variables-modified", Expected: want[x], Observed: got})
						}
					}
				}
			}
		}
	}
}

func runC05(r *Run) {
	r.Rule("(1) the C06 program/document space, all five entry points, verbose and silent; (2) a type-pair matrix: every comparison, arithmetic and string operator, connective, filter, subscript and exists over every ordered pair of operand kinds {null, bool, int64, float64, json.Number, string, numeric string, array, empty array, object, date, time, timetz, timestamp, timestamptz} plus 25 hostile json.Number spellings (beyond float64 range on both sides, exponents beyond 10^6 and 10^11, beyond int64, exponent forms, -0, 40- and 1000-digit integers, 400-digit fractions) 19 hostile datetime strings (impossible dates and times, year 10000, offsets beyond 14 h) and 40 hostile strings (empty, signs, radix prefixes, exponent stubs, inf/nan spellings, boolean spellings, partial datetimes), and every method / unary operator / accessor over every kind, every like_regex pattern of <= 3 symbols over 20 metacharacters / quoting sequences x 6 flag sets executed on 5 subjects, both modes, verbose and silent, with and without WithTZ; option lists with WithVars / WithSilent / WithTZ repeated (all triples of 5 maps); invariants on every execution: no panic; error nil, or wraps ErrExecution, or NULL from Exists/Match/ExistsOrMatch only; never ErrInvalid; document and variables equal an independent fresh decode afterwards; every returned number finite; every returned container pointer-identical to a sub-value of the input or a keyvalue triple; non-trivial = every case (each a distinct program/input)")
	paths := epPaths(r)
	docs := epDocs()
	r.Bound("paths", len(paths))
	r.Bound("documents", len(docs))
	epSweep(r, "invariants", paths, docs, epCfgs(), c05Oracle)

	ops := c05Operands()
	r.Bound("matrix_operand_kinds", len(ops))
	cvar := `j:[1,"a",null,[2],{"a":3}]`
	covered := map[string]bool{}
	n := len(ops) * len(ops)
	r.ParFor(n, func(i int) {
		a, b := ops[i/len(ops)], ops[i%len(ops)]
		texts := c05MatrixPaths(a, b)
		if i%len(ops) == 0 {
			texts = append(texts, c05UnaryPaths(a)...)
		}
		for _, t := range texts {
			for _, mode := range []string{"", "strict "} {
				for _, silent := range []bool{false, true} {
					for _, tz := range []bool{false, true} {
						c := Case{Rule: "type-matrix", Path: mode + t, Silent: silent, TZ: tz, Vars: map[string]string{"a": a.tag, "b": b.tag, "c": cvar},
							Extra: map[string]string{"kinds": a.name + "," + b.name, "dtleft": map[bool]string{true: "1", false: "0"}[isDTOperand(a) || isDTOperand(b)]}}
						r.evals.Add(1)
						r.traces.Add(5)
						if f := c05Matrix(c); f != nil {
							r.Fail(c, f)
						}
					}
				}
			}
		}
		r.mu.Lock()
		covered[a.name+","+b.name] = true
		r.mu.Unlock()
		r.Distinct(a.name + "," + b.name)
	})
	// like_regex patterns that parse are also executed (compilation happens at execution time)
	rps := c05RegexPaths()
	r.Bound("regex_paths", len(rps))
	r.ParFor(len(rps), func(i int) {
		if _, err, pan := parseCached(rps[i]); err != nil && pan == "" {
			return // rejected by the parser: nothing to execute
		}
		for _, subj := range []string{"s:a", "s:a.E(", `s:\\E`, "s:", "i:1"} {
			c := Case{Rule: "type-matrix", Path: rps[i], Vars: map[string]string{"a": subj}, Extra: map[string]string{"kinds": "regex", "dtleft": "0"}}
			r.evals.Add(1)
			r.traces.Add(5)
			if f := c05Matrix(c); f != nil {
				r.Fail(c, f)
			}
		}
	})
	// option lists with repeated options: every variables map handed in is left as it was
	c05RepeatedOptions(r)
	r.Extra("type_pairs_exercised", len(covered))
	r.Extra("type_pairs_expected", n)
	r.states.Add(int64(len(covered)))
	_ = json.Number("")
}

// sanitizeSig turns the start of an error message into a signature token (values stripped).
func sanitizeSig(msg string) string {
	var b strings.Builder
	for _, r := range msg {
		switch {
		case r >= 'a' && r <= 'z', r >= 'A' && r <= 'Z':
			b.WriteRune(r)
		case r == ' ' || r == ':' || r == '/':
			b.WriteByte('-')
		}
		if b.Len() >= 48 {
			break
		}
	}
	return b.String()
}
