package main

// C03 — every permitted spelling of a path parses to the tree the grammar assigns it.

import (
	"fmt"
	"math"
	"math/big"
	"strconv"
	"strings"
	"unicode/utf8"
)

type spellCase struct {
	family string
	text   string
	want   Path
}

func c03Check(sc spellCase) *Failure {
	p, err, pan := implParse(sc.text)
	if pan != "" {
		return &Failure{Sig: "C03/" + sc.family + "/panic", Expected: pathKey(sc.want), Observed: "panic: " + pan}
	}
	if err != nil {
		return &Failure{Sig: "C03/" + sc.family + "/rejected", Expected: pathKey(sc.want), Observed: err.Error()}
	}
	got, cerr := astToPath(p)
	if cerr != nil {
		return &Failure{Sig: "C03/" + sc.family + "/tree-unusable", Expected: pathKey(sc.want), Observed: cerr.Error()}
	}
	if g, w := pathKey(got), pathKey(sc.want); g != w {
		return &Failure{Sig: "C03/" + sc.family + "/tree-differs", Expected: w, Observed: g}
	}
	wantPred := sc.want.E.K.isPredicate() && len(sc.want.E.Steps) == 0
	if p.IsPredicate() != wantPred {
		return &Failure{Sig: "C03/" + sc.family + "/ispredicate", Expected: fmt.Sprint(wantPred), Observed: fmt.Sprint(p.IsPredicate())}
	}
	if op := p.PgIndexOperator(); (op == "@@") != wantPred || (op != "@@" && op != "@?") {
		return &Failure{Sig: "C03/" + sc.family + "/pgindexoperator", Expected: map[bool]string{true: "@@", false: "@?"}[wantPred], Observed: op}
	}
	return nil
}

func checkC03(c Case) *Failure {
	if c.Rule == "spelling" {
		return c03Check(spellCase{family: c.Extra["family"], text: c.Extra["input"], want: pathFromJSON(c.Extra["expr"])})
	}
	return c04Oracle("C03", c.Extra["input"], true, true)
}

// followers: what may come after a token; each yields the text to append and the
// transformation of the expected tree.
type follower struct {
	text  string
	wrap  func(*Expr) *Expr
	plain bool // white space / comment / end of input: the tree is unchanged
}

func c03Followers() []follower {
	id := func(e *Expr) *Expr { return e }
	return []follower{
		{"", id, true}, {" ", id, true}, {"\n", id, true}, {"\t", id, true}, {"\r", id, true}, {"/**/", id, true}, {" /* x */ ", id, true},
		{".b", func(e *Expr) *Expr { return e.withSteps(sKey("b")) }, false},
		{"[0]", func(e *Expr) *Expr { return e.withSteps(sIndex(sub1(eInt(0)))) }, false},
		{" == 1", func(e *Expr) *Expr { return eCmp("==", e, eInt(1)) }, false},
		{"+1", func(e *Expr) *Expr { return eArith("+", e, eInt(1)) }, false},
		{"?(@==1)", func(e *Expr) *Expr { return e.withSteps(sFilter(eCmp("==", eCur(), eInt(1)))) }, false},
	}
}

type role struct {
	name string
	text func(tok string) string
	want func(v string) *Expr
}

func stringRoles() []role {
	return []role{
		{"string", func(t string) string { return t }, func(v string) *Expr { return eStr(v) }},
		{"key", func(t string) string { return "$." + t }, func(v string) *Expr { return eRoot(sKey(v)) }},
		{"variable", func(t string) string { return "$" + t }, func(v string) *Expr { return eVar(v) }},
		{"starts-with", func(t string) string { return "$ starts with " + t }, func(v string) *Expr { return eStartsWith(eRoot(), eStr(v)) }},
		{"datetime-template", func(t string) string { return "$.datetime(" + t + ")" }, func(v string) *Expr { return eRoot(&Expr{K: KDT, S: "datetime", T: &v}) }},
	}
}

func hexw(n int, width int) string {
	s := strconv.FormatInt(int64(n), 16)
	for len(s) < width {
		s = "0" + s
	}
	return s
}

// escapeSpellings returns the escaped spellings of rune r inside a quoted item.
func escapeSpellings(r rune) []string {
	var out []string
	if r < 0x100 {
		out = append(out, `\x`+hexw(int(r), 2), `\x`+strings.ToUpper(hexw(int(r), 2)))
	}
	if r < 0x10000 {
		out = append(out, `\u`+hexw(int(r), 4), `\u`+strings.ToUpper(hexw(int(r), 4)))
	} else {
		v := r - 0x10000
		out = append(out, `\u`+hexw(int(0xD800+(v>>10)), 4)+`\u`+hexw(int(0xDC00+(v&0x3FF)), 4))
	}
	base := strconv.FormatInt(int64(r), 16)
	for w := len(base); w <= 6; w++ {
		out = append(out, `\u{`+hexw(int(r), w)+`}`)
	}
	switch r {
	case '\b':
		out = append(out, `\b`)
	case '\f':
		out = append(out, `\f`)
	case '\n':
		out = append(out, `\n`)
	case '\r':
		out = append(out, `\r`)
	case '\t':
		out = append(out, `\t`)
	case '\v':
		out = append(out, `\v`)
	}
	return out
}

func c03Runes(thorough bool) []rune {
	var rs []rune
	if thorough {
		for r := rune(1); r <= 0x10FFFF; r++ {
			if r >= 0xD800 && r <= 0xDFFF {
				continue
			}
			rs = append(rs, r)
		}
		return rs
	}
	for r := rune(1); r < 0x300; r++ {
		rs = append(rs, r)
	}
	for plane := rune(1); plane <= 16; plane++ { // the same 16-bit boundaries in every astral plane
		for _, low := range []rune{0x0000, 0x07ff, 0x0800, 0xd7ff, 0xd800, 0xdbff, 0xdc00, 0xdfff, 0xe000, 0xfffd, 0xffff} {
			rs = append(rs, plane<<16|low)
		}
	}
	for _, r := range []rune{0x7ff, 0x800, 0xfff, 0x1000, 0x2028, 0x2029, 0xd7ff, 0xe000, 0xfeff, 0xfffd, 0xfffe, 0xffff, 0x10000, 0x10001, 0x1f600, 0xfffff, 0x100000, 0x10fffe, 0x10ffff} {
		rs = append(rs, r)
	}
	return rs
}

func c03Cases(thorough bool, emit func(spellCase)) {
	followers := c03Followers()
	roles := stringRoles()
	// (a) every escape spelling of every rune, in every quoted role, with every follower
	for _, r := range c03Runes(thorough) {
		v := "p" + string(r) + "q"
		fl := followers
		rl := roles
		if thorough && r > 0x2FF { // the full code-point sweep uses the first role/follower pair only beyond Latin
			fl, rl = followers[:1], roles[:2]
		}
		for _, esc := range escapeSpellings(r) {
			tok := `"p` + esc + `q"`
			for _, ro := range rl {
				for _, f := range fl {
					if (ro.name == "starts-with" || ro.name == "datetime-template") && !f.plain {
						continue // a predicate / method argument cannot take these followers
					}
					emit(spellCase{"string-escape/" + ro.name, ro.text(tok) + f.text, Path{E: f.wrap(ro.want(v))}})
				}
			}
		}
		// the raw rune itself (except those that need escaping)
		if r != '"' && r != '\\' && r != '\n' && utf8.ValidRune(r) {
			for _, ro := range rl[:min(3, len(rl))] {
				emit(spellCase{"raw-rune/" + ro.name, ro.text(`"p` + string(r) + `q"`), Path{E: ro.want(v)}})
			}
		}
	}
	// the empty string in every quoted role, before every follower (a following number must still lex)
	for _, ro := range roles {
		for _, f := range followers {
			if (ro.name == "starts-with" || ro.name == "datetime-template") && !f.plain {
				continue
			}
			emit(spellCase{"empty-string/" + ro.name, ro.text(`""`) + f.text, Path{E: f.wrap(ro.want(""))}})
		}
	}
	emit(spellCase{"empty-string/then-numbers", `$."" ? (@ != "")[1 to 2]`, Path{E: eRoot(sKey(""), sFilter(eCmp("!=", eCur(), eStr(""))), sIndex(subR(eInt(1), eInt(2))))}})
	emit(spellCase{"empty-string/then-numbers", `$"" + 1.5 * 0x10`, Path{E: eArith("+", eVar(""), eArith("*", eNum(1.5), eInt(16)))}})
	emit(spellCase{"empty-string/then-numbers", `"" == 1`, Path{E: eCmp("==", eStr(""), eInt(1))}})
	// literal escape \c for every other ASCII c
	for c := rune(0x21); c < 0x7f; c++ {
		if strings.ContainsRune("bfnrtvxu", c) {
			continue
		}
		for _, ro := range roles[:3] {
			emit(spellCase{"literal-escape/" + ro.name, ro.text(`"a\` + string(c) + `"`), Path{E: ro.want("a" + string(c))}})
		}
	}
	// (b) bare identifiers with escapes, at the end of input and before every follower
	for _, r := range []rune{'a', 'Z', '_', '$', ' ', '.', '"', 'é', 0x1F600, '0', '-'} {
		for _, esc := range escapeSpellings(r) {
			for _, f := range followers {
				emit(spellCase{"ident-escape", "$.k" + esc + f.text, Path{E: f.wrap(eRoot(sKey("k" + string(r))))}})
				emit(spellCase{"ident-escape-leading", "$." + esc + "k" + f.text, Path{E: f.wrap(eRoot(sKey(string(r) + "k")))}})
			}
		}
		emit(spellCase{"ident-literal-escape", `$.k\` + string(r), Path{E: eRoot(sKey("k" + string(r)))}})
	}
	// (b') raw (unescaped) identifier characters: every code point that the documented identifier rule
	// (Unicode XID_Start / XID_Continue, plus '_') admits, in a bare key and an unquoted variable
	lim := rune(0x3100)
	if thorough {
		lim = 0x110000
	}
	for r := rune(0x80); r < lim; r++ {
		if r >= 0xD800 && r <= 0xDFFF {
			continue
		}
		if isIdentCont(r) {
			emit(spellCase{"raw-identifier-rune/continue", "$.k" + string(r) + ".b", Path{E: eRoot(sKey("k"+string(r)), sKey("b"))}})
			emit(spellCase{"raw-identifier-rune/variable", "$x" + string(r) + "[0]", Path{E: eVar("x"+string(r), sIndex(sub1(eInt(0))))}})
		}
		if isIdentStart(r) {
			emit(spellCase{"raw-identifier-rune/start", "$." + string(r) + "k == 1", Path{E: eCmp("==", eRoot(sKey(string(r)+"k")), eInt(1))}})
		}
	}
	// (c) numbers: value grid x spellings x positions x followers
	type numSpell struct {
		text  string
		isInt bool
		i     int64
		f     float64
	}
	var nums []numSpell
	addInt := func(text string, v int64) { nums = append(nums, numSpell{text: text, isInt: true, i: v}) }
	addNum := func(text string, v float64) { nums = append(nums, numSpell{text: text, f: v}) }
	for _, v := range []int64{0, 1, 7, 8, 10, 255, 1000, 65535, 1000000, 2147483647, 2147483648, 9007199254740993, math.MaxInt64} {
		d := strconv.FormatInt(v, 10)
		addInt(d, v)
		addInt("0x"+strconv.FormatInt(v, 16), v)
		addInt("0X"+strings.ToUpper(strconv.FormatInt(v, 16)), v)
		addInt("0o"+strconv.FormatInt(v, 8), v)
		addInt("0O"+strconv.FormatInt(v, 8), v)
		addInt("0b"+strconv.FormatInt(v, 2), v)
		addInt("0B"+strconv.FormatInt(v, 2), v)
		if len(d) > 3 {
			addInt(d[:len(d)-3]+"_"+d[len(d)-3:], v)
			h := strconv.FormatInt(v, 16)
			addInt("0x"+h[:1]+"_"+h[1:], v)
		}
		addNum(d+".", float64(v))
		addNum(d+".0", float64(v))
		addNum(d+"e0", float64(v))
		addNum(d+"E+0", float64(v))
		addNum(d+".e0", float64(v))
		if v != 0 {
			addNum(d+"0e-1", float64(v)*10/10)
		}
	}
	for _, s := range []string{"0.5", ".5", "5.", "1.5", "1e3", "1E3", "1e+3", "1e-3", "1.5e3", ".5e1", "5.e1", "1_0.2_5", "1e1_0", "4.0", "1e21", "1e-7", "1.7976931348623157e308", "5e-324",
		"0.1", "123.456", "9007199254740993.0", "0e0", "0.0", "00.5"} {
		clean := strings.ReplaceAll(s, "_", "")
		if s == "00.5" {
			continue // leading zeros are not permitted
		}
		f, err := strconv.ParseFloat(clean, 64)
		if err != nil {
			continue
		}
		addNum(s, f)
	}
	// integer literals beyond int64 denote their mathematical value (as a numeric)
	for _, s := range []string{"9223372036854775808", "18446744073709551616", "0x8000000000000000", "0xFFFFFFFFFFFFFFFFFFFF", "0o1000000000000000000000", "100000000000000000000000"} {
		bi, _ := new(big.Int).SetString(s, 0)
		f, _ := new(big.Float).SetInt(bi).Float64()
		addNum(s, f)
	}
	numExpr := func(n numSpell) *Expr {
		if n.isInt {
			return eInt(n.i)
		}
		return eNum(n.f)
	}
	type numPos struct {
		name string
		text func(string) string
		want func(*Expr) *Expr
	}
	positions := []numPos{
		{"bare", func(t string) string { return t }, func(e *Expr) *Expr { return e }},
		{"negated", func(t string) string { return "-" + t }, func(e *Expr) *Expr { return eNeg(e) }},
		{"negated-spaced", func(t string) string { return "- " + t }, func(e *Expr) *Expr { return eNeg(e) }},
		{"double-negated", func(t string) string { return "- -" + t }, func(e *Expr) *Expr { return eNeg(eNeg(e)) }},
		{"plus", func(t string) string { return "+" + t }, func(e *Expr) *Expr { return ePos(e) }},
		{"subscript", func(t string) string { return "$[" + t + "]" }, func(e *Expr) *Expr { return eRoot(sIndex(sub1(e))) }},
		{"range", func(t string) string { return "$[0 to " + t + "]" }, func(e *Expr) *Expr { return eRoot(sIndex(subR(eInt(0), e))) }},
		{"operand", func(t string) string { return "$.a * " + t }, func(e *Expr) *Expr { return eArith("*", eRoot(sKey("a")), e) }},
		{"compared", func(t string) string { return "$.a <= " + t }, func(e *Expr) *Expr { return eCmp("<=", eRoot(sKey("a")), e) }},
		{"parenthesised-head", func(t string) string { return "(" + t + ").abs()" }, func(e *Expr) *Expr { return e.withSteps(sMethod("abs")) }},
		{"in-filter", func(t string) string { return "$ ? (@ > " + t + ")" }, func(e *Expr) *Expr { return eRoot(sFilter(eCmp(">", eCur(), e))) }},
	}
	numFollowers := []follower{followers[0], followers[1], followers[2], followers[5], {" == 1", followers[9].wrap, false}, {"+1", followers[10].wrap, false}, {" +1", followers[10].wrap, false}}
	for _, n := range nums {
		for _, pos := range positions {
			for _, f := range numFollowers {
				if f.text != "" && pos.name != "bare" && pos.name != "negated" && pos.name != "plus" {
					continue
				}
				if f.text == " == 1" && pos.name != "bare" {
					continue
				}
				want := pos.want(numExpr(n))
				if pos.name == "bare" || pos.name == "negated" || pos.name == "plus" {
					want = f.wrap(want)
				} else if f.text != "" {
					continue
				}
				emit(spellCase{"number/" + pos.name, pos.text(n.text) + f.text, Path{E: want}})
			}
		}
		if n.isInt && len(n.text) > 2 && n.text[0] == '0' && strings.ContainsRune("xXoObB", rune(n.text[1])) {
			// a radix-prefixed integer may be followed directly by an accessor
			for _, st := range []*Expr{sMethod("type"), sKey("b"), sAnyKey(), sAny(0, -1)} {
				emit(spellCase{"number/radix-then-accessor", n.text + st.stepText(), Path{E: eInt(n.i).withSteps(st)}})
				emit(spellCase{"number/radix-then-accessor", "-" + n.text + st.stepText(), Path{E: eNeg(eInt(n.i).withSteps(st))}})
			}
		}
		if n.isInt && n.i < 1<<31 {
			lv := int(n.i)
			emit(spellCase{"number/any-level", "$.**{" + n.text + "}", Path{E: eRoot(sAny(lv, lv))}})
			emit(spellCase{"number/any-level-range", "$.**{0 to " + n.text + "}", Path{E: eRoot(sAny(0, lv))}})
			emit(spellCase{"number/decimal-args", "$.decimal(" + n.text + ", -" + n.text + ")", Path{E: eRoot(sDecimal(i64(n.i), i64(-n.i)))}})
			emit(spellCase{"number/time-precision", "$.time(" + n.text + ")", Path{E: eRoot(sDT("time", i64(n.i)))}})
		}
	}
	// (d) keyword case: every case pattern of every keyword, in its syntactic position
	type kw struct {
		word string
		text func(string) string
		want Path
	}
	one := int64(1)
	kws := []kw{
		{"strict", func(w string) string { return w + " $" }, Path{Strict: true, E: eRoot()}},
		{"lax", func(w string) string { return w + " $" }, Path{E: eRoot()}},
		{"last", func(w string) string { return "$[" + w + "]" }, Path{E: eRoot(sIndex(sub1(eLast())))}},
		{"to", func(w string) string { return "$[0 " + w + " 1]" }, Path{E: eRoot(sIndex(subR(eInt(0), eInt(1))))}},
		{"is", func(w string) string { return "($ == 1) " + w + " unknown" }, Path{E: eIsUnknown(eCmp("==", eRoot(), eInt(1)))}},
		{"unknown", func(w string) string { return "($ == 1) is " + w }, Path{E: eIsUnknown(eCmp("==", eRoot(), eInt(1)))}},
		{"exists", func(w string) string { return w + "($)" }, Path{E: eExists(eRoot())}},
		{"starts", func(w string) string { return "$ " + w + ` with "a"` }, Path{E: eStartsWith(eRoot(), eStr("a"))}},
		{"with", func(w string) string { return "$ starts " + w + ` "a"` }, Path{E: eStartsWith(eRoot(), eStr("a"))}},
		{"like_regex", func(w string) string { return "$ " + w + ` "a"` }, Path{E: eLikeRegex(eRoot(), "a", "")}},
		{"flag", func(w string) string { return `$ like_regex "a" ` + w + ` "i"` }, Path{E: eLikeRegex(eRoot(), "a", "i")}},
		{"decimal", func(w string) string { return "$." + w + "()" }, Path{E: eRoot(sDecimal(nil, nil))}},
		{"datetime", func(w string) string { return "$." + w + "()" }, Path{E: eRoot(sDT("datetime", nil))}},
		{"date", func(w string) string { return "$." + w + "()" }, Path{E: eRoot(sDT("date", nil))}},
		{"time", func(w string) string { return "$." + w + "(1)" }, Path{E: eRoot(sDT("time", &one))}},
		{"time_tz", func(w string) string { return "$." + w + "()" }, Path{E: eRoot(sDT("time_tz", nil))}},
		{"timestamp", func(w string) string { return "$." + w + "()" }, Path{E: eRoot(sDT("timestamp", nil))}},
		{"timestamp_tz", func(w string) string { return "$." + w + "()" }, Path{E: eRoot(sDT("timestamp_tz", nil))}},
	}
	for m := range methodNames {
		m := m
		kws = append(kws, kw{m, func(w string) string { return "$." + w + "()" }, Path{E: eRoot(sMethod(m))}})
	}
	for _, k := range kws {
		n := len(k.word)
		for mask := 0; mask < 1<<n; mask++ {
			b := []byte(k.word)
			for i := 0; i < n; i++ {
				if mask&(1<<i) != 0 && b[i] >= 'a' && b[i] <= 'z' {
					b[i] -= 32
				}
			}
			emit(spellCase{"keyword-case/" + k.word, k.text(string(b)), k.want})
			// the same word as a key is an ordinary key with that exact text
			emit(spellCase{"keyword-as-key", "$." + string(b), Path{E: eRoot(sKey(string(b)))}})
		}
	}
	for _, w := range []string{"true", "false", "null"} {
		n := len(w)
		for mask := 1; mask < 1<<n; mask++ {
			b := []byte(w)
			for i := 0; i < n; i++ {
				if mask&(1<<i) != 0 {
					b[i] -= 32
				}
			}
			emit(spellCase{"keyword-as-key", "$." + string(b), Path{E: eRoot(sKey(string(b)))}})
		}
	}
	emit(spellCase{"keyword-case/true", "true", Path{E: eTrue()}})
	emit(spellCase{"keyword-case/false", "false", Path{E: eFalse()}})
	emit(spellCase{"keyword-case/null", "null", Path{E: eNull()}})
	// (e) != vs <>
	emit(spellCase{"not-equal", "$ != 1", Path{E: eCmp("!=", eRoot(), eInt(1))}})
	emit(spellCase{"not-equal", "$ <> 1", Path{E: eCmp("!=", eRoot(), eInt(1))}})
	emit(spellCase{"not-equal", "$<>1", Path{E: eCmp("!=", eRoot(), eInt(1))}})
}

// ---- precedence / associativity / parentheses (own minimal printer from the documented table) ----

func precOf(e *Expr) int {
	if len(e.Steps) > 0 {
		return 10
	}
	switch e.K {
	case KOr:
		return 1
	case KAnd:
		return 2
	case KNot:
		return 3
	case KCmp, KStartsWith, KLikeRegex:
		return 4
	case KArith:
		if e.S == "+" || e.S == "-" {
			return 5
		}
		return 6
	case KNeg, KPos:
		return 7
	}
	return 10
}

// minText renders e with only the parentheses the documented precedence and
// left-associativity require.
func minText(e *Expr) string {
	par := func(x *Expr, need bool) string {
		if need {
			return "(" + minText(x) + ")"
		}
		return minText(x)
	}
	if len(e.Steps) > 0 {
		h := *e
		h.Steps = nil
		s := minText(&h)
		switch e.K {
		case KRoot, KCurrent, KLast, KVar, KStr, KTrue, KFalse, KNull:
		default:
			s = "(" + s + ")"
		}
		for _, st := range e.Steps {
			s += st.stepText()
		}
		return s
	}
	p := precOf(e)
	switch e.K {
	case KOr:
		return par(e.A, predNeedsParens(e.A, p, false)) + " || " + par(e.B, predNeedsParens(e.B, p, true))
	case KAnd:
		return par(e.A, predNeedsParens(e.A, p, false)) + " && " + par(e.B, predNeedsParens(e.B, p, true))
	case KNot:
		return "!(" + minText(e.A) + ")"
	case KIsUnknown:
		return "(" + minText(e.A) + ") is unknown"
	case KExists:
		return "exists(" + minText(e.A) + ")"
	case KCmp:
		return minText(e.A) + " " + e.S + " " + minText(e.B)
	case KStartsWith:
		return minText(e.A) + " starts with " + e.B.text()
	case KLikeRegex:
		return e.text()
	case KArith:
		return par(e.A, precOf(e.A) < p) + " " + e.S + " " + par(e.B, precOf(e.B) <= p)
	case KNeg:
		return "-" + par(e.A, precOf(e.A) < 7 || e.A.K == KNeg || e.A.K == KPos || isNegLit(e.A))
	case KPos:
		return "+" + par(e.A, precOf(e.A) < 7 || e.A.K == KNeg || e.A.K == KPos || isNegLit(e.A))
	}
	return e.text()
}

func isNegLit(e *Expr) bool { return (e.K == KInt && e.I < 0) || (e.K == KNum && e.F < 0) }

// predNeedsParens: operands of && and || that are not already delimited need
// parentheses only when they bind looser (or equal, on the right).
func predNeedsParens(x *Expr, parent int, right bool) bool {
	px := precOf(x)
	if px < parent || (right && px == parent) {
		return true
	}
	return false
}

func c03SyntaxCases(thorough bool, emit func(spellCase)) {
	atoms := []*Expr{eRoot(sKey("a")), eInt(1), eVar("x"), eNum(2.5)}
	ops := []string{"+", "-", "*", "/", "%"}
	var arith []*Expr
	arith = append(arith, atoms...)
	for _, a := range atoms {
		arith = append(arith, eNeg(a), ePos(a))
	}
	// all operator pairs, both associations
	var level2 []*Expr
	for _, o1 := range ops {
		for _, o2 := range ops {
			for _, x := range atoms[:2] {
				for _, y := range atoms[1:3] {
					for _, z := range atoms[:2] {
						level2 = append(level2, eArith(o2, eArith(o1, x, y), z), eArith(o1, x, eArith(o2, y, z)))
					}
				}
			}
			level2 = append(level2, eArith(o1, eNeg(atoms[0]), atoms[1]), eNeg(eArith(o1, atoms[0], atoms[1])), eArith(o2, atoms[0], eNeg(atoms[2])),
				eArith(o2, eArith(o1, atoms[0], atoms[1]).withSteps(sMethod("abs")), atoms[1]), eNeg(eArith(o1, atoms[0], atoms[1]).withSteps(sMethod("abs"))))
		}
	}
	if thorough {
		for _, o1 := range ops {
			for _, o2 := range ops {
				for _, o3 := range ops {
					a, b, c, d := atoms[0], atoms[1], atoms[2], atoms[3]
					level2 = append(level2, eArith(o3, eArith(o2, eArith(o1, a, b), c), d), eArith(o1, a, eArith(o2, b, eArith(o3, c, d))),
						eArith(o2, eArith(o1, a, b), eArith(o3, c, d)), eArith(o1, a, eArith(o3, eArith(o2, b, c), d)), eArith(o3, eArith(o1, a, eArith(o2, b, c)), d))
				}
			}
		}
	}
	arith = append(arith, level2...)
	for _, e := range arith {
		emit(spellCase{"precedence/arithmetic", minText(e), Path{E: e}})
		emit(spellCase{"precedence/arithmetic-full-parens", e.text(), Path{E: e}})
		emit(spellCase{"redundant-parens", "(" + minText(e) + ")", Path{E: e}})
		emit(spellCase{"redundant-parens", "((" + e.text() + "))", Path{E: e}})
		// as comparison operands: arithmetic binds tighter than comparison
		c := eCmp("<", e, eArith("+", eInt(1), eInt(2)))
		emit(spellCase{"precedence/comparison", minText(c), Path{E: c}})
		emit(spellCase{"precedence/subscript", "$[" + minText(e) + "]", Path{E: eRoot(sIndex(sub1(e)))}})
		emit(spellCase{"precedence/subscript-range", "$[" + minText(e) + " to " + minText(e) + ", 0]", Path{E: eRoot(sIndex(subR(e, e), sub1(eInt(0))))}})
	}
	// predicates
	pa := []*Expr{eCmp("==", eRoot(sKey("a")), eInt(1)), eExists(eRoot(sKey("b"))), eStartsWith(eRoot(), eStr("a")), eLikeRegex(eRoot(), "a", ""), eCmp("<", eInt(1), eArith("+", eInt(2), eInt(3)))}
	var preds []*Expr
	preds = append(preds, pa...)
	for _, p := range pa {
		preds = append(preds, eNot(p), eIsUnknown(p))
	}
	conn := func(k Kind, a, b *Expr) *Expr {
		if k == KAnd {
			return eAnd(a, b)
		}
		return eOr(a, b)
	}
	for _, k1 := range []Kind{KAnd, KOr} {
		for _, k2 := range []Kind{KAnd, KOr} {
			for _, x := range pa[:3] {
				for _, y := range pa[1:4] {
					for _, z := range []*Expr{pa[0], eNot(pa[1]), eIsUnknown(pa[0])} {
						preds = append(preds, conn(k2, conn(k1, x, y), z), conn(k1, x, conn(k2, y, z)), eNot(conn(k1, x, y)), conn(k1, eNot(x), y), eIsUnknown(conn(k1, x, y)))
					}
				}
			}
		}
	}
	for _, p := range preds {
		emit(spellCase{"precedence/predicate", minText(p), Path{E: p}})
		emit(spellCase{"precedence/predicate-full-parens", p.text(), Path{E: p}})
		emit(spellCase{"redundant-parens", "(" + minText(p) + ")", Path{E: p}})
		emit(spellCase{"redundant-parens", "((" + p.text() + "))", Path{E: p}})
		f := eRoot(sFilter(p))
		emit(spellCase{"precedence/filter", "$ ? (" + minText(p) + ")", Path{E: f}})
		emit(spellCase{"precedence/filter", "$?(" + minText(p) + ")", Path{E: f}})
		emit(spellCase{"precedence/predicate-item", "(" + minText(p) + ").type()", Path{E: p.withSteps(sMethod("type"))}})
		// a predicate followed by accessors used as an operand of another operation
		pt := p.withSteps(sMethod("type"))
		ps := p.withSteps(sMethod("string"))
		for _, e := range []*Expr{
			eCmp("==", pt, eStr("boolean")), eCmp("!=", eStr("boolean"), pt), eArith("+", p.withSteps(sMethod("size")), eInt(1)), eArith("*", eInt(2), p.withSteps(sMethod("size"))),
			eNeg(p.withSteps(sMethod("size"))), eRoot(sIndex(sub1(p.withSteps(sMethod("size"))))), eRoot(sIndex(subR(eInt(0), p.withSteps(sMethod("size"))))),
			eExists(pt), eStartsWith(ps, eStr("t")), eLikeRegex(ps, "^t", ""), eNot(eCmp("==", pt, eStr("boolean"))), eIsUnknown(eCmp("==", pt, eStr("boolean"))),
			eAnd(eCmp("==", pt, eStr("boolean")), eExists(ps)), eRoot(sFilter(eCmp("==", pt, eStr("boolean")))), eCmp("==", pt, eStr("boolean")).withSteps(sMethod("type")),
		} {
			emit(spellCase{"precedence/predicate-item-as-operand", e.text(), Path{E: e}})
		}
		emit(spellCase{"precedence/strict", "strict " + minText(p), Path{Strict: true, E: p}})
		emit(spellCase{"precedence/lax", "lax " + minText(p), Path{E: p}})
	}
}

// ---- whitespace / comments at every token boundary ----

// c03GeneratedPrograms: every generated program followed by every kind of accessor / method / filter
// step parses to itself (grammar actions: the value of an empty optional production, the step list
// after a parenthesised expression, a subscript or a filter), and .** levels at the int32 boundary.
// c03Trail: one step of every kind (accessors, methods with and without arguments, filter).
func c03Trail() []*Expr {
	tpl := "HH24:MI"
	trail := []*Expr{sKey("k"), sAnyKey(), sAnyArray(), sAny(0, -1), sAny(1, 2), sAny(3, 3), sAny(-1, -1), sAny(1, -1), sAny(0, 0), sIndex(sub1(eInt(0))), sIndex(subR(eInt(0), eLast())), sIndex(sub1(eInt(1)), sub1(eInt(2))),
		sDecimal(nil, nil), sDecimal(i64(5), nil), sDecimal(i64(5), i64(2)), {K: KDT, S: "datetime", T: &tpl}, sFilter(eCmp("==", eCur(), eInt(1)))}
	for _, m := range []string{"type", "size", "double", "number", "integer", "bigint", "boolean", "string", "abs", "floor", "ceiling", "keyvalue"} {
		trail = append(trail, sMethod(m))
	}
	for _, m := range []string{"datetime", "date", "time", "time_tz", "timestamp", "timestamp_tz"} {
		trail = append(trail, sDT(m, nil))
		if m != "datetime" && m != "date" {
			trail = append(trail, sDT(m, i64(3)))
		}
	}
	return trail
}

func c03GeneratedPrograms(thorough bool, emit func(spellCase)) {
	g := newFullGen()
	n := 3
	bases := g.all(n)
	bases = append(bases, g.constructPairs()...)
	trail := c03Trail()
	for i, b := range bases {
		emit(spellCase{"generated-program", Path{E: b}.String(), Path{E: b}})
		for j, t := range trail {
			if !thorough && len(b.Steps) == 0 && b.K != KRoot && (i+j)%2 == 1 {
				continue // quick: half of the (operator-rooted base, step) products
			}
			e := b.withSteps(t)
			p := Path{E: e, Strict: (i+j)%7 == 0}
			emit(spellCase{"generated-program-then-step", p.String(), p})
		}
	}
	// .** levels: a level above MaxInt32 is unbounded (last)
	lv := func(text string, v int) {
		emit(spellCase{"any-level", "$.**{" + text + "}", Path{E: eRoot(sAny(v, v))}})
		emit(spellCase{"any-level", "$.**{1 to " + text + "}.a", Path{E: eRoot(sAny(1, v), sKey("a"))}})
		emit(spellCase{"any-level", "$.**{" + text + " to last}", Path{E: eRoot(sAny(v, -1))}})
	}
	lv("2147483647", 2147483647)
	lv("2_147_483_647", 2147483647)
	lv("0x7fffffff", 2147483647)
	lv("65536", 65536)
	lv("4294967", 4294967)
	for _, big := range []string{"2147483648", "4294967295", "4294967296", "4294967297", "3_000_000_000", "0x100000000", "9223372036854775807", "9223372036854775808", "18446744073709551616", "99999999999999999999999"} {
		lv(big, -1)
	}
}

func c03WhitespaceCases(thorough bool, emit func(spellCase)) {
	fillers := []string{" ", "\t", "\n", "\r", "  ", "/**/", "/* c */", " /*x*/ ", "\n\n"}
	for _, seed := range c04Seeds {
		want, err := refParse(seed)
		if err != nil {
			continue
		}
		l := &rlexer{src: seed}
		if l.lexWithOffsets() != nil {
			continue
		}
		for _, off := range l.offsets {
			for _, f := range fillers {
				emit(spellCase{"whitespace-at-boundary", seed[:off] + f + seed[off:], want})
			}
		}
		if thorough {
			for i, o1 := range l.offsets {
				for _, o2 := range l.offsets[i+1:] {
					for _, f := range []string{" ", "\n", "/**/"} {
						emit(spellCase{"whitespace-at-two-boundaries", seed[:o1] + f + seed[o1:o2] + f + seed[o2:], want})
					}
				}
			}
		}
	}
}

func runC03(r *Run) {
	r.Rule("abstract paths rendered in every permitted spelling and parsed by the implementation, tree compared through exported accessors with the abstract path the spelling was generated from: every escape spelling (\\xNN, \\uNNNN incl. surrogate pairs, \\u{N} in every digit count, \\b\\f\\n\\r\\t\\v, \\c) of every code point of a boundary set (thorough: every Unicode scalar value) in 5 quoted roles and as bare-identifier escapes x 12 followers; every XID_Start / XID_Continue code point below U+3100 (thorough: all) raw in a bare key and an unquoted variable (end of input, each white space, comments, punctuation); a numeric grid in decimal/hex/octal/binary/underscore/exponent/.5/5. forms x 11 positions x followers; every case pattern of every keyword; != vs <>; every operator pair (thorough: triple) with minimal and full parentheses, redundant parentheses, predicates and connectives, strict/lax; white space and comments at every token boundary of 130 seeds; every generated program (full language <= 3 nodes and every construct nested in filters/subscripts) alone and followed by each of 45 step kinds (accessors, methods, .decimal/datetime methods with and without arguments, filter); .** levels around 2^31, 2^32, 2^63, 2^64; plus refparse tree agreement on the exhaustive string enumerations of C04 (shorter bounds). non-trivial = every spelling (all distinct)")
	var cases []spellCase
	emit := func(sc spellCase) { cases = append(cases, sc) }
	c03Cases(r.Thorough(), emit)
	c03SyntaxCases(r.Thorough(), emit)
	c03WhitespaceCases(r.Thorough(), emit)
	c03GeneratedPrograms(r.Thorough(), emit)
	r.Bound("generated_spellings", len(cases))
	fam := map[string]int64{}
	r.ParFor(len(cases), func(i int) {
		sc := cases[i]
		r.Note(i, sc.text)
		r.evals.Add(1)
		r.traces.Add(1)
		if f := c03Check(sc); f != nil {
			r.Fail(Case{Rule: "spelling", Extra: map[string]string{"family": sc.family, "input": sc.text, "expr": pathJSON(sc.want)}}, f)
			return
		}
		r.Distinct(sc.text)
		if i%20011 == 0 {
			r.Sample(map[string]string{"family": sc.family, "text": sc.text, "tree": pathKey(sc.want)})
		}
	})
	for _, sc := range cases {
		fam[strings.SplitN(sc.family, "/", 2)[0]]++
	}
	r.mu.Lock()
	for k, v := range fam {
		r.outcomes["family "+k] += v
	}
	r.mu.Unlock()
	r.states.Add(int64(len(cases)))
	r.transitions.Add(int64(len(cases)))
	// refparse tree agreement on exhaustive string enumerations
	L, M := 3, 2
	if r.Thorough() {
		L, M = 4, 3
	}
	enums := []strEnum{allStrings("all-strings", c04Alphabet, L), allStrings("lexeme-sequences", withSpaces(c04Lexemes), M), c04Edits(c04Seeds[:40], false)}
	nm := c04NearMisses(false)
	enums = append(enums, nm[0], nm[1], nm[6])
	runStringSweep(r, "C03", enums, true)
}
