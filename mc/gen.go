package main

// Program generators (E1 Paths): deterministic, simplest first.

// chainsOver returns every chain head.steps with 1..maxLen steps from the alphabet
// (and the bare head when withEmpty).
func chainsOver(head *Expr, alphabet []*Expr, maxLen int, withEmpty bool) []*Expr {
	var out []*Expr
	if withEmpty {
		out = append(out, head)
	}
	level := []*Expr{head}
	for l := 1; l <= maxLen; l++ {
		var next []*Expr
		for _, h := range level {
			for _, s := range alphabet {
				next = append(next, h.withSteps(s))
			}
		}
		out = append(out, next...)
		level = next
	}
	return out
}

func bothModes(es []*Expr) []Path {
	out := make([]Path, 0, 2*len(es))
	for _, e := range es {
		out = append(out, Path{Strict: false, E: e})
	}
	for _, e := range es {
		out = append(out, Path{Strict: true, E: e})
	}
	return out
}

func lastMinus(k int64) *Expr { return eArith("-", eLast(), eInt(k)) }
func lastPlus(k int64) *Expr  { return eArith("+", eLast(), eInt(k)) }

var numModes = []string{"float64", "number"}

func cfgsNum() []sweepCfg {
	return []sweepCfg{{Num: "float64"}, {Num: "number"}}
}

func cfgsNumSilent() []sweepCfg {
	return []sweepCfg{{Num: "float64"}, {Num: "number"}, {Num: "float64", Silent: true}, {Num: "number", Silent: true}}
}
