package main

// Program generators (E1 Paths): deterministic, simplest first.

// chainsOver returns every chain head.steps with 1..maxLen steps from the alphabet
// (and the bare head when withEmpty).
func chainsOver(head *Expr, alphabet []*Expr, maxLen int, withEmpty bool) []*Expr {
	var out []*Expr
	if withEmpty {
		out = append(out, head)
	}
	level := []*Expr{head}
	for l := 1; l <= maxLen; l++ {
		var next []*Expr
		for _, h := range level {
			for _, s := range alphabet {
				next = append(next, h.withSteps(s))
			}
		}
		out = append(out, next...)
		level = next
	}
	return out
}

func bothModes(es []*Expr) []Path {
	out := make([]Path, 0, 2*len(es))
	for _, e := range es {
		out = append(out, Path{Strict: false, E: e})
	}
	for _, e := range es {
		out = append(out, Path{Strict: true, E: e})
	}
	return out
}

func lastMinus(k int64) *Expr { return eArith("-", eLast(), eInt(k)) }
func lastPlus(k int64) *Expr  { return eArith("+", eLast(), eInt(k)) }

var numModes = []string{"float64", "number"}

func cfgsNum() []sweepCfg {
	return []sweepCfg{{Num: "float64"}, {Num: "number"}}
}

func cfgsNumSilent() []sweepCfg {
	return []sweepCfg{{Num: "float64"}, {Num: "number"}, {Num: "float64", Silent: true}, {Num: "number", Silent: true}}
}

// substCurrent returns a copy of e with every @ that refers to the item of the
// enclosing filter (depth 0) replaced by $; @ inside nested filters is rebound
// and left alone.
func substCurrent(e *Expr) *Expr {
	if e == nil {
		return nil
	}
	c := *e
	if c.K == KCurrent {
		c.K = KRoot
	}
	if c.K != KFilter { // a filter's condition rebinds @
		c.A = substCurrent(e.A)
	}
	c.B = substCurrent(e.B)
	if e.Subs != nil {
		c.Subs = make([]Sub, len(e.Subs))
		for i, s := range e.Subs {
			c.Subs[i] = Sub{From: substCurrent(s.From), To: substCurrent(s.To)}
		}
	}
	if e.Steps != nil {
		c.Steps = make([]*Expr, len(e.Steps))
		for i, s := range e.Steps {
			c.Steps[i] = substCurrent(s)
		}
	}
	return &c
}

// condBase: conditions over @ covering every predicate kind, soft failures,
// nested filters followed by further uses of @, and (flagged) hard errors.
type cond struct {
	e    *Expr
	hard bool // may raise a non-suppressible error
}

func condBase() []cond {
	at := func(steps ...*Expr) *Expr { return eCur(steps...) }
	idx := func(i int64) *Expr { return sIndex(sub1(eInt(i))) }
	cs := []cond{
		{e: eCmp("==", at(), eInt(1))},
		{e: eCmp(">", at(), eInt(0))},
		{e: eCmp("==", at(), eStr("a"))},
		{e: eCmp("==", at(), eNull())},
		{e: eCmp("==", at(sKey("a")), eInt(1))},
		{e: eCmp("==", at(sKey("a")), at(sKey("b")))},
		{e: eExists(at(sKey("a")))},
		{e: eExists(at(sKey("b")))},
		{e: eCmp("==", at(sAnyArray()), eInt(1))},
		{e: eCmp("==", at(idx(0)), eInt(1))},
		{e: eCmp("==", at(sAnyKey()), eTrue())},
		{e: eStartsWith(at(), eStr("a"))},
		{e: eLikeRegex(at(), "^a", "")},
		{e: eCmp("==", eArith("+", at(sKey("a")), eInt(1)), eInt(2))},
		{e: eCmp("==", at(sMethod("size")), eInt(2))},
		{e: eCmp("==", at(sMethod("type")), eStr("array"))},
		{e: eCmp("==", at(sKey("a"), sKey("b")), eInt(1))},
		{e: eCmp("==", eNeg(at()), eInt(-1))},
		{e: eCmp("!=", at(sKey("a")), eInt(1))},
		{e: eCmp("!=", at(sAnyArray()), eNull())},
		{e: eCmp("==", at(sKey("a"), sMethod("double")), eInt(1))},
		// nested filters: @ is rebound inside and must denote the outer item again afterwards
		{e: eExists(at(sKey("a"), sFilter(eCmp("==", eCur(), eInt(1)))))},
		{e: eExists(at(sAnyArray(), sFilter(eCmp("==", eCur(), eInt(1)))))},
		{e: eExists(at(sFilter(eCmp("==", eCur(sKey("a")), eInt(1))), sFilter(eCmp("==", eCur(sKey("b")), eInt(1)))))},
		{e: eCmp("==", at(sKey("a"), sFilter(eCmp(">", eCur(), eInt(0)))), at(sKey("a")))},
		{e: eExists(at(sAnyArray(), sFilter(eCmp(">", eCur(), eStr("x")))))},
		{e: eExists(at(sAnyKey(), sFilter(eExists(eCur(sKey("a"))))))},
		// operands that deliver an item and fail on a later one (lax exists stops at the first item)
		{e: eExists(at(sKey("a"), sMethod("double")))},
		{e: eExists(at(sAnyArray(), sMethod("double")))},
		{e: eExists(eArith("+", at(sKey("a"), sAnyArray()), eInt(1)))},
		{e: eCmp("<", at(sKey("a"), sAnyArray(), sMethod("double")), at(sKey("b")))},
		// hard errors
		{e: eCmp("==", at(), eVar("missing")), hard: true},
		{e: eExists(at(sKey("a"), sFilter(eCmp("==", eCur(), eVar("missing"))))), hard: true},
		{e: eIsUnknown(eExists(at(sKey("a"), sFilter(eCmp("==", eCur(), eVar("missing")))))), hard: true},
		{e: eIsUnknown(eExists(at(sAnyKey(), sFilter(eCmp(">", eCur(), eVar("missing")))))), hard: true},
	}
	return cs
}

// condPool: base, negations, is-unknown, and all ordered pairs under && and ||
// of the first pairN base conditions plus every nested-filter / hard-error one.
func condPool(pairN int) []cond {
	base := condBase()
	out := append([]cond{}, base...)
	for _, c := range base {
		out = append(out, cond{e: eNot(c.e), hard: c.hard}, cond{e: eIsUnknown(c.e), hard: c.hard})
	}
	var pairSet []cond
	for i, c := range base {
		if i < pairN || i >= 21 { // the nested-filter, yield-then-fail and hard-error conditions always take part
			pairSet = append(pairSet, c)
		}
	}
	for _, a := range pairSet {
		for _, b := range pairSet {
			out = append(out, cond{e: eAnd(a.e, b.e), hard: a.hard || b.hard}, cond{e: eOr(a.e, b.e), hard: a.hard || b.hard})
		}
	}
	return out
}
