package main

// C06 — Query, First, Exists, Match and ExistsOrMatch tell one story.

import (
	"fmt"
	"strings"
)

func containsCanon(items []any, v any) bool {
	cv := canonNoID(v)
	for _, it := range items {
		if canonNoID(it) == cv {
			return true
		}
	}
	return false
}

func boolOut(o Out) string {
	if o.Class == "ok" {
		return fmt.Sprint(o.Bool)
	}
	return o.Class
}

func c06Oracle(ec *epCase) *Failure {
	mode := "lax"
	if ec.p.Strict {
		mode = "strict"
	}
	// member order of multi-member objects is open: two executions may visit members in different
	// orders, so relations that involve a failure (whose position decides what was found) are
	// checked only where no wildcard can cross such an object.
	wild := exprUses(ec.p.E, func(x *Expr) bool { return x.K == KAnyKey || x.K == KAny })
	kv := exprUses(ec.p.E, func(x *Expr) bool { return x.K == KMethod && x.S == "keyvalue" })
	unordered := wild && (multiMember(ec.doc) || usesVar(ec.p.E) || kv)
	if unordered && (ec.verbose.q.Class != "ok" || ec.silent.q.Class != "ok" || ec.verbose.e.Class != "ok" || c06OrderSensitive(ec)) {
		for _, x := range []Out{ec.verbose.q, ec.verbose.f, ec.verbose.e, ec.verbose.m, ec.verbose.x, ec.silent.q, ec.silent.f, ec.silent.e, ec.silent.m, ec.silent.x} {
			if x.Class == "panic" {
				return &Failure{Sig: "C06/panic/" + mode, Expected: "no panic", Observed: x.String()}
			}
		}
		return nil
	}
	for _, pass := range []struct {
		name string
		o    epOuts
	}{{"verbose", ec.verbose}, {"silent", ec.silent}} {
		o := pass.o
		tag := pass.name + "/" + mode
		for _, x := range []Out{o.q, o.f, o.e, o.m, o.x} {
			if x.Class == "panic" {
				return &Failure{Sig: "C06/panic/" + tag, Expected: "no panic", Observed: x.String()}
			}
		}
		// First vs Query
		if o.f.Class != o.q.Class {
			return &Failure{Sig: "C06/first-vs-query/class/" + tag, Expected: "First errs like Query: " + o.q.String(), Observed: o.f.String()}
		}
		if o.q.Class == "ok" {
			first := o.f.Items[0]
			switch {
			case len(o.q.Items) == 0:
				if first != nil {
					return &Failure{Sig: "C06/first-vs-query/empty/" + tag, Expected: "nil (Query is empty)", Observed: canon(first)}
				}
			case unordered:
				if !containsCanon(o.q.Items, first) {
					return &Failure{Sig: "C06/first-vs-query/member/" + tag, Expected: "an item of " + canonList(o.q.Items), Observed: canon(first)}
				}
			default:
				if canonNoID(first) != canonNoID(o.q.Items[0]) {
					return &Failure{Sig: "C06/first-vs-query/item/" + tag, Expected: canonNoID(o.q.Items[0]), Observed: canonNoID(first)}
				}
			}
		}
		// Match vs Query
		var wantM string
		switch {
		case o.q.Class != "ok":
			wantM = o.q.Class
		case len(o.q.Items) == 1 && o.q.Items[0] == true:
			wantM = "true"
		case len(o.q.Items) == 1 && o.q.Items[0] == false:
			wantM = "false"
		case len(o.q.Items) == 1 && o.q.Items[0] == nil:
			wantM = "null"
		case pass.name == "silent":
			wantM = "null"
		default:
			wantM = "soft"
		}
		if got := boolOut(o.m); got != wantM {
			// silent Match after a suppressed failure may also answer NULL
			if !(pass.name == "silent" && ec.verbose.q.Class == "soft" && got == "null") {
				return &Failure{Sig: "C06/match-vs-query/" + tag, Expected: wantM + " (Query: " + o.q.String() + ")", Observed: o.m.String()}
			}
		}
		// ExistsOrMatch dispatch
		want := o.e
		// (whether the path is a predicate check is read off the abstract path, not asked of the implementation)
		if ec.p.E.K.isPredicate() && len(ec.p.E.Steps) == 0 {
			want = o.m
		}
		if boolOut(o.x) != boolOut(want) && !unordered {
			return &Failure{Sig: "C06/exists-or-match-dispatch/" + tag, Expected: want.String(), Observed: o.x.String()}
		}
	}
	v, s := ec.verbose, ec.silent
	// Query succeeds (no error at all) => Exists says whether the result is non-empty, in both passes
	if v.q.Class == "ok" {
		want := fmt.Sprint(len(v.q.Items) > 0)
		for _, e := range []struct {
			name string
			o    Out
		}{{"verbose", v.e}, {"silent", s.e}} {
			if boolOut(e.o) != want {
				return c06Known(ec, &Failure{Sig: "C06/exists-vs-successful-query/" + e.name + "/" + mode, Expected: want + " (Query: " + v.q.String() + ")", Observed: e.o.String()})
			}
		}
	}
	// Exists never reports true when a complete evaluation yields no item
	if s.q.Class == "ok" && len(s.q.Items) == 0 {
		for _, e := range []struct {
			name string
			o    Out
		}{{"verbose", v.e}, {"silent", s.e}} {
			if e.o.Class == "ok" && e.o.Bool {
				return c06Known(ec, &Failure{Sig: "C06/exists-true-without-items/" + e.name + "/" + mode, Expected: "false, NULL or an error (complete evaluation yields no item; Query: " + v.q.String() + ")", Observed: e.o.String()})
			}
		}
	}
	// Exists never reports true when a complete evaluation yields no item, also where that evaluation
	// ends in an error (Query then shows no items at all, so the count comes from the reference
	// model's complete evaluation: the items it delivers before the first error)
	if !unordered && v.q.Class != "ok" {
		for _, o := range []struct {
			e      Out
			silent bool
		}{{v.e, false}, {s.e, true}} {
			if !(o.e.Class == "ok" && o.e.Bool) {
				continue
			}
			rc := newRefCtx(ec.p.Strict, ec.doc, map[string]any(ec.cfg.vars), ec.c.TZ, zoneOf(ec.c.Zone))
			ro := refQuery(ec.p, rc)
			if ro.declined != "" || ro.multiObj || ro.err == nil || len(ro.items) > 0 {
				continue
			}
			return c06Known(ec, &Failure{Sig: "C06/exists-true-but-evaluation-fails-without-items/" + mode, Expected: "Exists not true: the complete evaluation fails (" + ro.err.msg + ") before any item", Observed: o.e.String() + fmt.Sprint(" (silent=", o.silent, ")")})
		}
	}
	// strict mode never hides an error that Query reports
	if ec.p.Strict && v.q.Class != "ok" {
		if v.e.Class != v.q.Class {
			return c06Known(ec, &Failure{Sig: "C06/strict-exists-hides-error/verbose", Expected: v.q.String(), Observed: v.e.String()})
		}
		wantS := "null"
		if v.q.Class == "hard" || v.q.Class == "invalid" {
			wantS = v.q.Class // never suppressed (that ErrInvalid is returned at all is C05's concern)
		}
		if s.e.Class != wantS {
			return c06Known(ec, &Failure{Sig: "C06/strict-exists-hides-error/silent", Expected: wantS + " (verbose Query: " + v.q.String() + ")", Observed: s.e.String()})
		}
	}
	return nil
}

// c06Known: is the failure exactly what the reference predicts once a recorded defect is emulated?
// c06OrderSensitive: does the outcome of the complete evaluation depend on the order in which wildcards
// visit object members (a failure absorbed into a value, e.g. exists() over one convertible and one
// failing member)? Decided by the reference model under every member order; a declined reference
// counts as sensitive. Two executions of such a case may legitimately differ.
func c06OrderSensitive(ec *epCase) bool {
	var first string
	perms := 1
	for perm := 0; perm < perms; perm++ {
		rc := newRefCtx(ec.p.Strict, ec.doc, map[string]any(ec.cfg.vars), ec.c.TZ, zoneOf(ec.c.Zone))
		rc.keyPerm = perm
		ro := refQuery(ec.p, rc)
		if ro.declined != "" {
			return true
		}
		s := ro.class() + " " + canonMultiset(ro.items)
		if perm == 0 {
			first = s
			for i := 2; i <= ro.maxObj && i <= 4; i++ {
				perms *= i
			}
		} else if s != first {
			return true
		}
	}
	return false
}

func c06Known(ec *epCase, f *Failure) *Failure {
	for _, q := range refQuirks {
		okAll := true
		for _, silent := range []bool{false, true} {
			rc := newRefCtx(ec.p.Strict, ec.doc, map[string]any(ec.cfg.vars), ec.c.TZ, zoneOf(ec.c.Zone))
			rc.quirk = q
			class, val, declined, _ := refExists(ec.p, rc, silent)
			o := ec.verbose.e
			if silent {
				o = ec.silent.e
			}
			if declined != "" || class != o.Class || (class == "ok" && val != o.Bool) {
				okAll = false
			}
		}
		// and the reference without the defect must disagree with the implementation
		rc := newRefCtx(ec.p.Strict, ec.doc, map[string]any(ec.cfg.vars), ec.c.TZ, zoneOf(ec.c.Zone))
		class, val, _, _ := refExists(ec.p, rc, false)
		differs := class != ec.verbose.e.Class || (class == "ok" && val != ec.verbose.e.Bool)
		if okAll && differs {
			return &Failure{Sig: "C06/known/" + q, Expected: f.Expected, Observed: f.Observed}
		}
	}
	// where the reference declines (an orthogonal open point), fall back to the narrow syntactic form of
	// the recorded unary defect: a lax path whose top level is unary +/- without accessors, Query failing
	// suppressibly, Exists answering true
	if !ec.p.Strict && (ec.p.E.K == KNeg || ec.p.E.K == KPos) && len(ec.p.E.Steps) == 0 && ec.verbose.q.Class == "soft" && ec.verbose.e.Class == "ok" && ec.verbose.e.Bool {
		return &Failure{Sig: "C06/known/unary-nonnumeric-exists-true", Expected: f.Expected, Observed: f.Observed}
	}
	return f
}

func c06Optional(c Case) *Failure {
	parsed, err, pan := implParse(c.Path)
	if err != nil || pan != "" {
		return nil // not accepted by this parser: nothing to relate
	}
	doc := mustDoc(c.Doc, c.Num)
	q, f, e := implQuery(parsed, doc, runCfg{}), implFirst(parsed, doc, runCfg{}), implExists(parsed, doc, runCfg{})
	switch {
	case q.Class == "panic" || f.Class == "panic" || e.Class == "panic":
		return &Failure{Sig: "C06/optional-path/panic", Expected: "no panic", Observed: q.String() + " / " + f.String() + " / " + e.String()}
	case f.Class != q.Class:
		return &Failure{Sig: "C06/optional-path/first-vs-query", Expected: q.String(), Observed: f.String()}
	case q.Class == "ok" && (e.Class != "ok" || e.Bool != (len(q.Items) > 0)):
		return &Failure{Sig: "C06/optional-path/exists-vs-query", Expected: fmt.Sprint(len(q.Items) > 0, " (Query: ", q.String(), ")"), Observed: e.String()}
	case strings.HasPrefix(c.Path, "strict ") && q.Class != "ok" && e.Class == "ok":
		return &Failure{Sig: "C06/optional-path/strict-exists-hides-error", Expected: q.String(), Observed: e.String()}
	}
	return nil
}

func checkC06(c Case) *Failure {
	if c.Rule == "reloaded-path" {
		return c06Reloaded(c)
	}
	if c.Rule == "optional-path" {
		return c06Optional(c)
	}
	return c06Oracle(epReplay(c))
}

var c06ReloadPool = []string{`$.a`, `$.a[*] ? (@ > 1)`, `strict $.b`, `$.zz`, `exists($.a)`, `$.a[*] > 1`, `$.b == "x"`, `strict $.zz == 1`, `$.a[0] + 1`, `!($.b starts with "y")`}

var c06Loaders = []string{"scan-string", "scan-bytes", "unmarshal-text", "unmarshal-binary"}

// c06Reloaded: a Path object that has answered all five entry points for path A and is then loaded with
// path B (Scan / UnmarshalText / UnmarshalBinary) answers them exactly like a freshly parsed B.
func c06Reloaded(c Case) *Failure {
	doc := mustDoc(c.Doc, "float64")
	obj, err, pan := implParse(c.Path)
	fresh, err2, pan2 := implParse(c.Path2)
	if err != nil || err2 != nil || pan != "" || pan2 != "" {
		panic("harness: reload pool path does not parse")
	}
	for _, e := range entryNames {
		implEntry(e, obj, doc, runCfg{})
	}
	_ = obj.String()
	var lerr error
	switch c.Extra["loader"] {
	case "scan-string":
		lerr = obj.Scan(c.Path2)
	case "scan-bytes":
		lerr = obj.Scan([]byte(c.Path2))
	case "unmarshal-text":
		lerr = obj.UnmarshalText([]byte(c.Path2))
	case "unmarshal-binary":
		lerr = obj.UnmarshalBinary([]byte(c.Path2))
	}
	if lerr != nil {
		return &Failure{Sig: "C06/reload-failed/" + c.Extra["loader"], Expected: "loads " + c.Path2, Observed: lerr.Error()}
	}
	for _, silent := range []bool{false, true} {
		for _, e := range entryNames {
			got, want := implEntry(e, obj, doc, runCfg{silent: silent}), implEntry(e, fresh, doc, runCfg{silent: silent})
			if got.String() != want.String() {
				return &Failure{Sig: "C06/reloaded-path-differs-from-fresh/" + e + "/" + c.Extra["loader"], Expected: want.String() + " (fresh " + c.Path2 + ")", Observed: got.String() + " (object that held " + c.Path + " before)"}
			}
		}
	}
	if obj.String() != fresh.String() || obj.IsPredicate() != fresh.IsPredicate() {
		return &Failure{Sig: "C06/reloaded-path-differs-from-fresh/string/" + c.Extra["loader"], Expected: fresh.String(), Observed: obj.String()}
	}
	return nil
}

func runC06(r *Run) {
	r.Rule("every path of the full language with <= N nodes (3 quick, 4 thorough), every construct nested in filters/subscripts, and every chain of <= L steps over an alphabet with one failing (soft and hard) and one succeeding variant of each step kind plus operators over failing/succeeding operands, x both modes x 65 documents (all with <= 2 nodes, datetime/numeric strings, arrays with the offending element at each position) x {float64,json.Number} x {WithTZ} ; all five entry points, verbose and silent, on identical inputs; oracle = relations between the real executions: First = Query[0]/nil with the same error; Query ok => Exists = non-empty; no items => Exists not true; strict: Exists never hides Query's error; Match = sole boolean / NULL / single-boolean-expected; ExistsOrMatch dispatches on IsPredicate; a Path object re-loaded by Scan/UnmarshalText/UnmarshalBinary after use answers like a freshly parsed one (all ordered pairs of 10 paths x 4 loaders); non-trivial = Query yields items or an error")
	paths := epPaths(r)
	docs := epDocs()
	r.Bound("paths", len(paths))
	r.Bound("documents", len(docs))
	epSweep(r, "entry-point-relations", paths, docs, epCfgs(), c06Oracle)
	kes, kvals := keyvalueWalks()
	r.Bound("keyvalue_walk_paths", 2*len(kes))
	epSweep(r, "entry-point-relations", bothModes(kes), makeDocs(kvals), epCfgs()[:2], c06Oracle)
	// path texts the pinned parser rejects (@ or last in positions it forbids): should a parser accept one of
	// them, the five entry points must still tell one story about it
	optional := []string{`$ ? (@.i == 0).a[@.i]`, `$ ? (@ > 0)[@]`, `$.a ? (@.b == 1).c[@.b to last]`, `$[@]`, `$.a[@.i]`, `$ ? (@.i == 0).a[0 to @.i]`, `$[0] ? (@ == last)`, `$.a[1].b ? (last > 0)`,
		`$ ? (last > 0)`, `@.a`, `@ == 1`, `$.a + @`, `last`, `$[*] ? (@ == 1).b[last ? (@ > @)]`, `exists(@)`, `$.a ? (@ == 1) ? (@ > 0)[@]`}
	odocs := []string{`{"i":0,"a":[10,20]}`, `[1,2,3]`, `{"a":[{"b":1,"c":[5,6]},{"i":1}],"i":1}`, `[[1,2],[3]]`, `1`}
	for _, t := range optional {
		for _, mode := range []string{"", "strict "} {
			parsed, err, pan := implParse(mode + t)
			if err != nil || pan != "" {
				continue
			}
			_ = parsed
			for _, d := range odocs {
				for _, num := range []string{"float64", "number"} {
					c := Case{Rule: "optional-path", Path: mode + t, Doc: d, Num: num}
					r.evals.Add(1)
					if f := c06Optional(c); f != nil {
						r.Fail(c, f)
					}
				}
			}
		}
	}
	// a re-loaded Path object: all ordered pairs of a pool mixing predicate checks and item paths x 4 loaders
	var rl []Case
	for _, a := range c06ReloadPool {
		for _, b := range c06ReloadPool {
			for _, l := range c06Loaders {
				for _, d := range []string{`{"a":[1,2,3],"b":"x"}`, `{"a":[],"b":"y"}`} {
					rl = append(rl, Case{Rule: "reloaded-path", Path: a, Path2: b, Doc: d, Num: "float64", Extra: map[string]string{"loader": l}})
				}
			}
		}
	}
	r.Bound("reloaded_path_cases", len(rl))
	r.ParFor(len(rl), func(i int) {
		r.evals.Add(1)
		r.traces.Add(20)
		r.transitions.Add(20)
		if f := c06Reloaded(rl[i]); f != nil {
			r.Fail(rl[i], f)
		}
	})
	r.states.Add(int64(len(r.outcomes)))
}
