package main

// C10 — a filter keeps exactly the items for which its condition is true.

import (
	"fmt"
	"reflect"
)

func c10Prefixes() []*Expr {
	return []*Expr{
		eRoot(), eRoot(sAnyArray()), eRoot(sKey("a")), eRoot(sAnyKey()), eRoot(sKey("a"), sAnyArray()), eRoot(sAnyArray(), sKey("a")),
		eRoot(sAny(0, -1)), eRoot(sIndex(sub1(eInt(0)))), eRoot(sAnyArray(), sFilter(eExists(eCur(sKey("a"))))), eRoot(sIndex(subR(eInt(0), eLast()))),
		eRoot(sMethod("keyvalue"), sKey("value")), eRoot(sIndex(sub1(eInt(0)), sub1(eInt(1)))),
	}
}

func hasAnyStep(e *Expr) bool {
	for _, s := range e.Steps {
		if s.K == KAny {
			return true
		}
	}
	return false
}

func hasMemberWildcard(e *Expr) bool {
	for _, s := range e.Steps {
		if s.K == KAny || s.K == KAnyKey {
			return true
		}
	}
	return false
}

func ptrOf(v any) uintptr {
	switch v.(type) {
	case []any, map[string]any:
		return reflect.ValueOf(v).Pointer()
	}
	return 0
}

type c10Input struct {
	prefix *Expr
	cond   *Expr
	strict bool
}

func c10Decode(c Case) c10Input {
	return c10Input{prefix: pathFromJSON(c.Extra["prefix"]).E, cond: pathFromJSON(c.Extra["cond"]).E, strict: c.Extra["mode"] == "strict"}
}

func checkC10(c Case) *Failure {
	if c.Rule == "filter-vs-reference" {
		f, _ := compareQueryWithRef("C10", c, nil)
		return f
	}
	in := c10Decode(c)
	doc := mustDoc(c.Doc, c.Num)
	if c.Rule == "consecutive-filters" {
		return c10Consecutive(in, pathFromJSON(c.Extra["cond2"]).E, doc)
	}
	return c10Check(in, doc)
}

func c10Check(in c10Input, doc any) *Failure {
	mode := "lax"
	if in.strict {
		mode = "strict"
	}
	pA := Path{Strict: in.strict, E: in.prefix.withSteps(sFilter(in.cond))}
	pB := Path{Strict: in.strict, E: in.prefix}
	pC := Path{Strict: in.strict, E: substCurrent(in.cond)}
	shape := mode
	qa, e1, _ := parseCached(pA.String())
	qb, e2, _ := parseCached(pB.String())
	qc, e3, _ := parseCached(pC.String())
	if e1 != nil || e2 != nil || e3 != nil {
		return &Failure{Sig: "C10/parse", Expected: "all three paths parse", Observed: fmt.Sprint(pA.String(), e1, pB.String(), e2, pC.String(), e3)}
	}
	cfg := runCfg{}
	A, B := implQuery(qa, doc, cfg), implQuery(qb, doc, cfg)
	if A.Class == "panic" || B.Class == "panic" {
		return &Failure{Sig: "C10/panic/" + shape, Expected: "no panic", Observed: A.String() + " / " + B.String()}
	}
	if B.Class != "ok" {
		// (items stream through the filter: a condition's non-suppressible error on an earlier item
		// precedes the prefix's failure on a later one)
		if A.Class != B.Class && !(B.Class == "soft" && A.Class == "hard") {
			return &Failure{Sig: "C10/prefix-error-not-propagated/" + shape, Expected: B.String(), Observed: A.String()}
		}
		return nil
	}
	var items []any
	for _, x := range B.Items {
		if arr, ok := x.([]any); ok && !in.strict {
			items = append(items, arr...)
		} else {
			items = append(items, x)
		}
	}
	var kept []any
	hardAt := -1
	for i, x := range items {
		v := implQuery(qc, x, cfg)
		switch {
		case v.Class == "hard":
			if hardAt < 0 {
				hardAt = i
			}
		case v.Class != "ok":
			return &Failure{Sig: "C10/condition-as-check-not-three-valued/" + shape, Expected: "true, false, null or a non-suppressible error", Observed: v.String()}
		case len(v.Items) == 1 && v.Items[0] == true:
			kept = append(kept, x)
		}
	}
	if hardAt >= 0 {
		if A.Class != "hard" {
			return &Failure{Sig: "C10/hard-error-in-condition-lost/" + shape, Expected: "non-suppressible error (condition fails hard on item " + canon(items[hardAt]) + ")", Observed: A.String()}
		}
		return nil
	}
	if A.Class != "ok" {
		return &Failure{Sig: "C10/filter-aborted/" + A.Class + "/" + shape, Expected: "ok " + canonList(kept), Observed: A.String()}
	}
	unordered := hasMemberWildcard(in.prefix) && multiMember(doc)
	var got, want string
	if unordered {
		got, want = canonMultiset(A.Items), canonMultiset(kept)
	} else {
		got, want = canonList(A.Items), canonList(kept)
	}
	if got != want {
		return &Failure{Sig: "C10/kept-items-differ/" + shape, Expected: want, Observed: got}
	}
	// the existence-only evaluation of the same filter agrees: Exists is true iff some item is kept
	// (whatever the position of the kept item among those the prefix delivers)
	if E := implExists(qa, doc, cfg); E.Class != "ok" || E.Bool != (len(kept) > 0) {
		return &Failure{Sig: "C10/exists-disagrees-with-kept-items/" + shape, Expected: fmt.Sprint("Exists = ", len(kept) > 0, " (kept ", canonList(kept), ")"), Observed: E.String()}
	}
	// no item altered: containers are the very containers P delivered
	ptrs := map[uintptr]bool{}
	for _, x := range items {
		if p := ptrOf(x); p != 0 {
			ptrs[p] = true
		}
	}
	for _, x := range A.Items {
		if p := ptrOf(x); p != 0 && !ptrs[p] {
			if m, ok := x.(map[string]any); ok && len(m) == 0 {
				continue // empty maps may share no backing storage
			}
			if s, ok := x.([]any); ok && len(s) == 0 {
				continue
			}
			return &Failure{Sig: "C10/item-copied-or-altered/" + shape, Expected: "the container delivered by P", Observed: canon(x)}
		}
	}
	return nil
}

// c10Consecutive: in strict mode P ? (C1) ? (C2) == P ? (C1 && C2) for conditions free of hard errors.
func c10Consecutive(in c10Input, cond2 *Expr, doc any) *Failure {
	p1 := Path{Strict: true, E: in.prefix.withSteps(sFilter(in.cond), sFilter(cond2))}
	p2 := Path{Strict: true, E: in.prefix.withSteps(sFilter(eAnd(in.cond, cond2)))}
	q1, e1, _ := parseCached(p1.String())
	q2, e2, _ := parseCached(p2.String())
	if e1 != nil || e2 != nil {
		return &Failure{Sig: "C10/parse", Expected: "both parse", Observed: fmt.Sprint(e1, e2)}
	}
	a, b := implQuery(q1, doc, runCfg{}), implQuery(q2, doc, runCfg{})
	if a.Class != b.Class || (a.Class == "ok" && canonMultiset(a.Items) != canonMultiset(b.Items)) ||
		(a.Class == "ok" && !(hasMemberWildcard(in.prefix) && multiMember(doc)) && canonList(a.Items) != canonList(b.Items)) {
		return &Failure{Sig: "C10/consecutive-filters-vs-conjunction", Expected: p1.String() + " => " + a.String(), Observed: p2.String() + " => " + b.String()}
	}
	return nil
}

func runC10(r *Run) {
	r.Rule("every prefix P (12 accessor chains incl. .keyvalue().value and [0,1]) x every condition C from a generated pool (31 base conditions over @ covering every predicate kind, soft failures, nested filters followed by further uses of @, hard errors; their negations and is-unknown; all ordered pairs under && and ||) x every JSON document with <= K nodes x {lax,strict}; oracle = relation between three real executions: Query(P ? (C)) must be the order-preserving subsequence of the (lax-unwrapped) items x of Query(P) for which Query(C[@:=$], x) is [true]; false/null/soft error drop; a hard error aborts; Exists(P ? (C)) is true iff an item is kept; containers pointer-identical; strict: P?(C1)?(C2) == P?(C1 && C2); the same programs, and 45 conditions mentioning a variable bound to a string, a number, two arrays and an object, also against the reference model; non-trivial = P yields at least one item")
	K, pairN := 3, 8
	if r.Thorough() {
		K, pairN = 4, 21
	}
	docs := makeDocs(append(Docs(K, stdScalars, stdKeys), mustDoc(`{"a":{"a":1,"b":1},"b":1}`, "float64"), mustDoc(`[{"a":[1,2],"b":1},{"a":1,"b":2}]`, "float64"),
		mustDoc(`{"a":[{"a":1}],"b":[1,"x"]}`, "float64"), mustDoc(`{"a":[1,"x"],"b":2}`, "float64"), mustDoc(`[[1,"x"],["x",1],{"a":["x",1]}]`, "float64")))
	docs = append(docs, makeDocs([]any{mustDoc(`{"a":["x",1],"b":2}`, "float64"), mustDoc(`{"a":["1","x"],"b":2}`, "float64"), mustDoc(`[{"a":[1,"x"],"b":2},{"a":["x",1],"b":0}]`, "float64"),
		mustDoc(`[[1,5],[0,7],3]`, "float64"), mustDoc(`[[[1,5]],[1,[2,3]]]`, "float64")})...)
	conds := condPool(pairN)
	prefixes := c10Prefixes()
	r.Bound("max_doc_nodes", K)
	r.Bound("documents", len(docs))
	r.Bound("conditions", len(conds))
	r.Bound("prefixes", len(prefixes))
	n := len(conds) * len(prefixes)
	r.ParFor(n, func(i int) {
		if r.Expired() {
			r.Cap(fmt.Sprintf("internal deadline at (condition,prefix) index %d of %d", i, n))
			return
		}
		cd, pf := conds[i/len(prefixes)], prefixes[i%len(prefixes)]
		pj, cj := pathJSON(Path{E: pf}), pathJSON(Path{E: cd.e})
		for _, strict := range []bool{false, true} {
			if strict && hasAnyStep(pf) {
				continue // steps following .** in strict mode run with structural errors ignored: C standalone differs by design
			}
			mode := "lax"
			if strict {
				mode = "strict"
			}
			in := c10Input{prefix: pf, cond: cd.e, strict: strict}
			for di, d := range docs {
				r.evals.Add(1)
				r.traces.Add(3)
				r.transitions.Add(1)
				if f := c10Check(in, d.f); f != nil {
					r.Fail(Case{Rule: "filter-vs-check", Path: Path{Strict: strict, E: pf.withSteps(sFilter(cd.e))}.String(), Doc: d.text, Num: "float64",
						Extra: map[string]string{"prefix": pj, "cond": cj, "mode": mode}}, f)
				}
				if di%50 == 7 && i%211 == 0 {
					r.Sample(map[string]string{"path": Path{Strict: strict, E: pf.withSteps(sFilter(cd.e))}.String(), "doc": d.text})
				}
			}
			r.Distinct(mode + "|" + pj + "|" + cj)
		}
	})
	// cross-check of the same programs against the reference model (catches defects that
	// the filter path and the predicate-check path share)
	var rpaths []Path
	for _, cd := range conds {
		for _, pf := range prefixes {
			rpaths = append(rpaths, Path{E: pf.withSteps(sFilter(cd.e))}, Path{Strict: true, E: pf.withSteps(sFilter(cd.e))})
		}
	}
	refSweep(r, "filter-vs-reference", rpaths, docs, []sweepCfg{{Num: "float64"}})
	// conditions that mention a variable, bound to a scalar, an array and an object (the right operand of
	// starts with is never unwrapped, a comparison operand is unwrapped in lax mode only)
	var vconds []*Expr
	x := eVar("x")
	for _, cnd := range []*Expr{{K: KStartsWith, A: eCur(), B: x}, {K: KStartsWith, A: eCur(sKey("a")), B: x}, eCmp("==", eCur(), x), eCmp("==", x, eCur()), eCmp(">=", eCur(), x), eCmp("==", eCur(sKey("a")), x),
		eCmp("==", eCur(), eVar("x", sAnyArray())), eCmp("==", eCur(), eVar("x", sKey("a"))), eExists(eVar("x", sFilter(eCmp("==", eCur(), eInt(1)))))} {
		vconds = append(vconds, cnd, eNot(cnd), &Expr{K: KIsUnknown, A: cnd}, eAnd(cnd, eCmp("==", eCur(), eCur())), eOr(cnd, eExists(eCur(sKey("b")))))
	}
	// a right operand that delivers an item and fails on a later one (and the mirror image): unknown,
	// whichever element comes first
	for _, m := range []string{"integer", "double"} {
		yf := eCur(sKey("a"), sAnyArray(), sMethod(m))
		for _, cnd := range []*Expr{eCmp("==", eInt(1), yf), eCmp("==", yf, eInt(1)), eCmp(">", eCur(sKey("b")), yf), eCmp("<", yf, eCur(sKey("b"))), eCmp("==", yf, yf)} {
			vconds = append(vconds, cnd, eNot(cnd), eIsUnknown(cnd), eOr(cnd, eCmp("==", eCur(sKey("b")), eInt(3))))
		}
	}
	var vpaths []Path
	for _, cnd := range vconds {
		for _, pf := range prefixes {
			vpaths = append(vpaths, Path{E: pf.withSteps(sFilter(cnd))}, Path{Strict: true, E: pf.withSteps(sFilter(cnd))})
		}
	}
	r.Bound("variable_condition_paths", len(vpaths))
	refSweep(r, "filter-vs-reference", vpaths, docs, []sweepCfg{{Num: "float64", Vars: map[string]string{"x": "s:a"}}, {Num: "float64", Vars: map[string]string{"x": "i:1"}},
		{Num: "float64", Vars: map[string]string{"x": `j:["a",1]`}}, {Num: "float64", Vars: map[string]string{"x": `j:{"a":1}`}}, {Num: "float64", Vars: map[string]string{"x": `j:[["a"],"b"]`}}})
	// two consecutive filters against the reference, both modes (lax: an array that survives the first
	// filter is unwrapped again by the second)
	var cpaths []Path
	cbase := condBase()
	for i, c1 := range cbase {
		for j, c2 := range cbase {
			if c1.hard || c2.hard || (!r.Thorough() && i >= 21 && j >= 21) {
				continue
			}
			for _, pf := range []*Expr{eRoot(), eRoot(sAnyArray())} {
				cpaths = append(cpaths, Path{E: pf.withSteps(sFilter(c1.e), sFilter(c2.e))}, Path{Strict: true, E: pf.withSteps(sFilter(c1.e), sFilter(c2.e))})
			}
		}
	}
	r.Bound("consecutive_filter_paths", len(cpaths))
	refSweep(r, "filter-vs-reference", cpaths, docs, []sweepCfg{{Num: "float64"}})
	// consecutive filters (strict), hard-error-free conditions
	base := condBase()
	var soft []cond
	for _, c := range base {
		if !c.hard {
			soft = append(soft, c)
		}
	}
	m := len(soft) * len(soft)
	cprefixes := []*Expr{eRoot(), eRoot(sAnyArray()), eRoot(sKey("a"))}
	r.ParFor(m, func(i int) {
		c1, c2 := soft[i/len(soft)], soft[i%len(soft)]
		for _, pf := range cprefixes {
			in := c10Input{prefix: pf, cond: c1.e, strict: true}
			for _, d := range docs {
				r.evals.Add(1)
				r.traces.Add(2)
				if f := c10Consecutive(in, c2.e, d.f); f != nil {
					r.Fail(Case{Rule: "consecutive-filters", Path: Path{Strict: true, E: pf.withSteps(sFilter(c1.e), sFilter(c2.e))}.String(), Doc: d.text, Num: "float64",
						Extra: map[string]string{"prefix": pathJSON(Path{E: pf}), "cond": pathJSON(Path{E: c1.e}), "cond2": pathJSON(Path{E: c2.e}), "mode": "strict"}}, f)
				}
			}
		}
	})
	r.states.Add(int64(len(docs)))
}
