package main

// Entry-point sweep shared by C05, C06 and C08: all five entry points, verbose
// and silent, on every (path, document, configuration) of a generated space.

import (
	"fmt"
)

type epOuts struct {
	q, f, e, m, x Out
}

func runEntryPoints(parsed pathT, doc any, cfg runCfg) epOuts {
	return epOuts{
		q: implQuery(parsed, doc, cfg),
		f: implFirst(parsed, doc, cfg),
		e: implExists(parsed, doc, cfg),
		m: implMatch(parsed, doc, cfg),
		x: implExistsOrMatch(parsed, doc, cfg),
	}
}

type epCase struct {
	fpBefore uint64 // fingerprint of document and variables before the ten calls (0: not taken)
	c        Case
	p        Path
	doc      any
	cfg      runCfg
	parsed   pathT
	verbose  epOuts
	silent   epOuts
}

// errorFamily: chains of <= maxLen steps over an alphabet that contains one
// failing (soft and hard) and one succeeding variant of each step kind.
func errorFamilySteps() []*Expr {
	tpl := "HH24"
	return []*Expr{
		sKey("a"), sKey("zz"), sAnyArray(), sAnyKey(), sIndex(sub1(eInt(0))), sIndex(sub1(eInt(5))), sIndex(sub1(eInt(0)), sub1(eInt(1))), sIndex(sub1(eVar("missing"))),
		sAny(0, -1),
		sMethod("double"), sMethod("integer"), sMethod("size"), sMethod("keyvalue"), sMethod("type"),
		sDecimal(i64(0), nil), sDecimal(i64(1), i64(1001)), sDecimal(i64(1), i64(0)), sDecimal(i64(2147483648), nil), sDecimal(i64(5), i64(-2147483649)), sDecimal(i64(2147483647), nil), sDecimal(i64(5), i64(-2147483648)), sDecimal(i64(5), i64(2147483647)),
		sDT("timestamp_tz", nil), sDT("date", nil), {K: KDT, S: "datetime", T: &tpl}, sDT("datetime", nil),
		sFilter(eCmp("==", eCur(), eInt(1))), sFilter(eCmp("==", eCur(), eVar("missing"))), sFilter(eExists(eCur(sKey("a")))),
		sFilter(eIsUnknown(eCmp("==", eCur(sKey("a")), eInt(1)))), sFilter(eCmp("==", eCur(sKey("a"), sMethod("double")), eInt(1))),
	}
}

func errorFamilyPaths(maxLen int) []*Expr {
	es := chainsOver(eRoot(), errorFamilySteps(), maxLen, false)
	// arithmetic and unary operators over failing / succeeding operands at each position
	// (the last two yield items first and fail on a later element)
	ops := []*Expr{eRoot(), eRoot(sKey("a")), eRoot(sAnyArray()), eStr("a"), eInt(1), eVar("missing"), eRoot(sKey("a"), sMethod("double")),
		eRoot(sAnyArray(), sMethod("double")), eRoot(sAnyArray(), sMethod("integer")), eRoot(sIndex(subR(eInt(0), eInt(1))), sKey("a"))}
	for _, a := range ops {
		es = append(es, eNeg(a), ePos(a))
		for _, b := range ops {
			es = append(es, eArith("+", a, b), eArith("/", a, b), eCmp("==", a, b), eCmp("<", a, b))
		}
		es = append(es, eExists(a), eStartsWith(a, eStr("a")), eLikeRegex(a, "a", ""), eRoot(sIndex(sub1(a))), eNot(eExists(a)), eIsUnknown(eCmp("==", a, eInt(1))))
	}
	// an operator expression as a path item followed by a further step (in existence mode the step
	// must still be evaluated): succeeding, empty, failing softly and failing hard
	for _, x := range []*Expr{eRoot(), eRoot(sKey("a")), eRoot(sAnyArray()), eVar("missing"), eInt(1)} {
		for _, o := range []*Expr{eArith("+", x, eInt(1)), eArith("*", eInt(2), x), eNeg(x), ePos(x), eCmp("==", x, eInt(1)), eExists(x), eNot(eExists(x)), eIsUnknown(eCmp(">", x, eInt(0))),
			eStartsWith(x, eStr("a")), eLikeRegex(x, "a", ""), eAnd(eExists(x), eCmp("==", x, eInt(1)))} {
			for _, st := range []*Expr{sKey("zz"), sMethod("type"), sMethod("double"), sMethod("boolean"), sIndex(sub1(eInt(5))), sIndex(sub1(eInt(0))), sFilter(eCmp("==", eCur(), eInt(1))), sAnyArray()} {
				es = append(es, o.withSteps(st))
			}
		}
	}
	return es
}

// keyvalueWalks: a path (and operands) that walk the key/value pairs of an object and fail on one of
// them, with the failing member first, in the middle and last in key order.
func keyvalueWalks() ([]*Expr, []any) {
	var es []*Expr
	kvv := []*Expr{sMethod("keyvalue"), sKey("value")}
	for _, m := range []string{"double", "integer", "abs"} {
		chain := append(append([]*Expr{}, kvv...), sMethod(m))
		for _, pf := range []*Expr{eRoot(), eRoot(sAnyArray()), eRoot(sKey("a"))} {
			es = append(es, pf.withSteps(chain...), pf.withSteps(sFilter(eCmp(">", eCur(chain...), eInt(0)))), pf.withSteps(sFilter(eExists(eCur(chain...)))),
				pf.withSteps(sFilter(eIsUnknown(eCmp(">", eCur(chain...), eInt(0))))), eExists(pf.withSteps(chain...)), eCmp("==", pf.withSteps(chain...), eInt(1)),
				pf.withSteps(sMethod("keyvalue"), sFilter(eCmp("==", eCur(sKey("value")), eInt(1))), sKey("key")), pf.withSteps(sMethod("keyvalue"), sFilter(eCmp("==", eCur(sKey("key")), eStr("b"))), sKey("value")))
		}
	}
	var vals []any
	for _, a := range []any{float64(1), "x", float64(-1)} {
		for _, b := range []any{float64(1), "x"} {
			for _, c := range []any{float64(1), "x"} {
				o := map[string]any{"a": a, "b": b, "c": c}
				vals = append(vals, o, []any{o, map[string]any{"a": c, "b": a}}, map[string]any{"a": o})
			}
		}
	}
	return es, vals
}

func epDocs() []docEntry {
	vals := Docs(2, stdScalars, stdKeys)
	for _, s := range c01SpecialDocs {
		vals = append(vals, mustDoc(s, "float64"))
	}
	vals = append(vals, mustDoc(`[1,{"a":2}]`, "float64"), mustDoc(`[{"a":2},1]`, "float64"), mustDoc(`[1,"x",2]`, "float64"), mustDoc(`["x",1]`, "float64"), mustDoc(`[1,"x"]`, "float64"), mustDoc(`["1","x"]`, "float64"),
		mustDoc(`{"a":[1,"x"]}`, "float64"), mustDoc(`[{"a":1},{"a":"x"},{"b":1}]`, "float64"))
	return makeDocs(vals)
}

type pathT = *implPath

// epSweep runs fn on every case; fn returns the failures of its oracle.
func epSweep(r *Run, rule string, paths []Path, docs []docEntry, cfgs []sweepCfg, fn func(ec *epCase) *Failure) {
	r.ParFor(len(paths), func(i int) {
		if r.Expired() {
			r.Cap(fmt.Sprintf("internal deadline: %s stopped before path index %d of %d", rule, i, len(paths)))
			return
		}
		p := paths[i]
		text := p.String()
		r.Note(i, text)
		parsed, err, pan := parseCached(text)
		if err != nil || pan != "" {
			r.Fail(Case{Rule: rule, Path: text}, &Failure{Sig: r.ID + "/generated-path-does-not-parse", Expected: "parses", Observed: fmt.Sprint(err, pan)})
			return
		}
		ej := pathJSON(p)
		outcomes := map[string]int64{}
		for di, d := range docs {
			for _, sc := range cfgs {
				c := Case{Rule: rule, Path: text, Doc: d.text, Num: sc.Num, TZ: sc.TZ, Zone: sc.Zone, Vars: sc.Vars, Extra: map[string]string{"expr": ej}}
				doc := d.f
				if sc.Num == "number" {
					doc = d.n
				}
				cfg := cfgOf(c)
				ec := &epCase{c: c, p: p, doc: doc, cfg: cfg, parsed: parsed}
				if r.ID == "C05" {
					ec.fpBefore = fingerprint(doc, map[string]any(cfg.vars))
				}
				ec.verbose = runEntryPoints(parsed, doc, cfg)
				scfg := cfg
				scfg.silent = true
				ec.silent = runEntryPoints(parsed, doc, scfg)
				r.evals.Add(1)
				r.traces.Add(10)
				r.transitions.Add(10)
				if f := fn(ec); f != nil {
					r.Fail(c, f)
					continue
				}
				key := ec.verbose.q.Class + "/" + ec.silent.q.Class + "/" + ec.verbose.e.Class + "/" + ec.verbose.m.Class
				outcomes[key]++
				if ec.verbose.q.Class != "ok" || len(ec.verbose.q.Items) > 0 {
					r.Distinct(text + "|" + d.text + "|" + sc.String())
				}
				if i%311 == 0 && di%17 == 3 {
					r.Sample(map[string]any{"path": text, "doc": d.text, "query": ec.verbose.q.String(), "exists": ec.verbose.e.String(), "match": ec.verbose.m.String(), "silent_query": ec.silent.q.String()})
				}
			}
		}
		r.mu.Lock()
		for k, v := range outcomes {
			r.outcomes[k] += v
		}
		r.mu.Unlock()
	})
}

// epReplay rebuilds the case from its serialised form.
func epReplay(c Case) *epCase {
	p := pathFromJSON(c.Extra["expr"])
	parsed, err, pan := parseCached(c.Path)
	if err != nil || pan != "" {
		panic("harness: replay path does not parse")
	}
	doc := mustDoc(c.Doc, c.Num)
	cfg := cfgOf(c)
	ec := &epCase{c: c, p: p, doc: doc, cfg: cfg, parsed: parsed}
	ec.fpBefore = fingerprint(doc, map[string]any(cfg.vars))
	ec.verbose = runEntryPoints(parsed, doc, cfg)
	cfg.silent = true
	ec.silent = runEntryPoints(parsed, doc, cfg)
	return ec
}

func epPaths(r *Run) []Path {
	g := newFullGen()
	N, L := 3, 2
	if r.Thorough() {
		N, L = 4, 3
	}
	r.Bound("max_path_nodes", N)
	r.Bound("max_error_chain_length", L)
	es := g.all(N)
	es = append(es, g.constructPairs()...)
	es = append(es, errorFamilyPaths(L)...)
	return bothModes(es)
}

func epCfgs() []sweepCfg {
	return []sweepCfg{{Num: "float64", Vars: map[string]string{"x": "i:1"}}, {Num: "number", Vars: map[string]string{"x": "i:1"}},
		{Num: "float64", Vars: map[string]string{"x": "i:1"}, TZ: true, Zone: "+05:30"}}
}
