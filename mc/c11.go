package main

// C11 — Boolean connectives follow three-valued (Kleene) logic.

import (
	"fmt"
	"strings"
)

// realisations of each operand outcome, as predicate texts over the document
// {"a":1,"s":"a"}; U realisations that depend on the mode are tagged.
type realisation struct {
	text string
	mode string // "", "lax", "strict": where this realisation has the stated outcome
}

var kleeneFamilies = map[string][]realisation{
	"T": {{`1 == 1`, ""}, {`exists($)`, ""}, {`"ab" starts with "a"`, ""}, {`"ab" like_regex "^a"`, ""}, {`(1 == 1) && (2 == 2)`, ""},
		{`(1 == "a") is unknown`, ""}, {`!(1 == 2)`, ""}, {`$.a == 1`, ""}, {`exists($.a)`, ""}, {`(1 == 2) || (1 == 1)`, ""},
		{`exists($.l[0 to 1] ? (@ > 1))`, ""}, {`exists($.m[0, 1] ? (@ > 1))`, ""}, {`exists($.l[1, 0] ? (@ > 1))`, ""}, {`exists($.keyvalue() ? (@.key == "a"))`, ""}},
	"F": {{`1 == 2`, ""}, {`exists($ ? (1 == 2))`, ""}, {`"ab" starts with "b"`, ""}, {`"ab" like_regex "^b"`, ""}, {`(1 == 1) && (1 == 2)`, ""},
		{`(1 == 1) is unknown`, ""}, {`!(1 == 1)`, ""}, {`$.a == 2`, ""}, {`exists($.zz)`, "lax"}, {`(1 == 2) || (2 == 1)`, ""}, {`exists($.l[0 to 1] ? (@ > 9))`, ""}, {`exists($.keyvalue() ? (@.key == "zz"))`, ""}},
	"U": {{`1 == "a"`, ""}, {`1 starts with "a"`, ""}, {`1 like_regex "a"`, ""}, {`exists(1 / 0)`, ""}, {`(1 / 0) == 1`, ""}, {`!(1 == "a")`, ""},
		{`exists($.zz)`, "strict"}, {`$.zz == 1`, "strict"}, {`(1 == "a") && (1 == 1)`, ""}, {`(1 == "a") || (1 == 2)`, ""}, {`$.a.zz == 1`, "strict"},
		{`$.s > 1`, ""}, {`$ == $`, ""}},
	"E": {{`$missing == 1`, ""}, {`exists($missing)`, ""}, {`$missing starts with "a"`, ""}, {`"a" starts with $missing`, ""}, {`$missing like_regex "a"`, ""},
		{`!($missing == 1)`, ""}, {`(1 == 1) && ($missing == 1)`, ""}, {`(1 == 2) || ($missing == 1)`, ""}, {`$[$missing] == 1`, "lax"},
		// errors raised by the comparison itself: zone-less vs zone-aware datetimes without WithTZ
		{`"2015-08-02".date() == "2015-08-02T00:00:00+00:00".timestamp_tz()`, ""}, {`"2015-08-02T12:00:00".timestamp() < "2015-08-02T12:00:00+01:00".timestamp_tz()`, ""},
		{`"12:00:00".time() >= "12:00:00+01".time_tz()`, ""}, {`"1".decimal(0) == 1`, ""}, {`"2015-08-02".timestamp_tz() == "2015-08-02T00:00:00+00:00".timestamp_tz()`, ""}},
}

const c11Doc = `{"a":1,"s":"a","l":[5,1],"m":[1,5]}`

func kleeneAnd(a, b string) string {
	switch {
	case a == "F" || b == "F":
		return "F"
	case a == "T" && b == "T":
		return "T"
	}
	return "U"
}

func kleeneOr(a, b string) string {
	switch {
	case a == "T" || b == "T":
		return "T"
	case a == "F" && b == "F":
		return "F"
	}
	return "U"
}

func kleeneNot(a string) string {
	switch a {
	case "T":
		return "F"
	case "F":
		return "T"
	}
	return "U"
}

// admissible outcomes of a connective given operand outcomes in {T,F,U,E}.
func c11Admissible(op, a, b string) map[string]bool {
	out := map[string]bool{}
	switch op {
	case "&&", "||":
		k := kleeneAnd
		decide := "F"
		if op == "||" {
			k, decide = kleeneOr, "T"
		}
		switch {
		case a != "E" && b != "E":
			out[k(a, b)] = true
		default:
			out["E"] = true
			if a == decide || b == decide {
				out[decide] = true
			}
		}
	case "!":
		if a == "E" {
			out["E"] = true
		} else {
			out[kleeneNot(a)] = true
		}
	case "is unknown":
		switch a {
		case "E":
			out["E"] = true
		case "U":
			out["T"] = true
		default:
			out["F"] = true
		}
	}
	return out
}

// c11Observe evaluates a predicate text in a context and maps the observation to T/F/U/E.
// contexts: top (Query of the predicate check), match (Match), filter ($ ? (C)), exists (exists($ ? (C)) as a check).
func c11Observe(mode, ctxKind, pred string) (string, string) {
	prefix := ""
	if mode == "strict" {
		prefix = "strict "
	}
	var text string
	switch ctxKind {
	case "top", "top-silent", "match", "match-silent", "existsormatch-silent":
		text = prefix + pred
	case "filter":
		text = prefix + "$ ? (" + pred + ")"
	case "exists":
		text = prefix + "exists($ ? (" + pred + "))"
	case "filter-isunknown":
		text = prefix + "$ ? ((" + pred + ") is unknown)"
	}
	p, err, pan := parseCached(text)
	if err != nil || pan != "" {
		return "?", fmt.Sprintf("parse failure of %q: %v %s", text, err, pan)
	}
	doc := mustDoc(c11Doc, "float64")
	if ctxKind == "match" || ctxKind == "match-silent" || ctxKind == "existsormatch-silent" {
		o := implMatch(p, doc, runCfg{})
		if ctxKind == "match-silent" {
			o = implMatch(p, doc, runCfg{silent: true})
		}
		if ctxKind == "existsormatch-silent" {
			o = implExistsOrMatch(p, doc, runCfg{silent: true})
		}
		switch {
		case o.Class == "ok" && o.Bool:
			return "T", o.String()
		case o.Class == "ok":
			return "F", o.String()
		case o.Class == "null":
			return "U", o.String()
		case o.Class == "hard":
			return "E", o.String()
		}
		return "?", o.String()
	}
	o := implQuery(p, doc, runCfg{silent: ctxKind == "top-silent"})
	if o.Class == "hard" {
		return "E", o.String()
	}
	if o.Class != "ok" {
		return "?", o.String()
	}
	switch ctxKind {
	case "top", "top-silent", "exists":
		if len(o.Items) == 1 {
			switch o.Items[0] {
			case true:
				return "T", o.String()
			case false:
				return "F", o.String()
			case nil:
				return "U", o.String()
			}
		}
		return "?", o.String()
	case "filter":
		// a filter cannot tell F from U: map "dropped" to "F|U"
		if len(o.Items) == 1 {
			return "T", o.String()
		}
		if len(o.Items) == 0 {
			return "FU", o.String()
		}
	case "filter-isunknown":
		if len(o.Items) == 1 {
			return "U", o.String()
		}
		if len(o.Items) == 0 {
			return "TF", o.String()
		}
	}
	return "?", o.String()
}

func c11Compatible(obs string, adm map[string]bool, ctxKind string) bool {
	switch obs {
	case "FU":
		return adm["F"] || adm["U"]
	case "TF":
		return adm["T"] || adm["F"]
	}
	if ctxKind == "exists" {
		// exists($ ? (C)) is true iff C is true, false otherwise; an error stays an error
		switch obs {
		case "T":
			return adm["T"]
		case "F":
			return adm["F"] || adm["U"]
		case "E":
			return adm["E"]
		}
		return false
	}
	return adm[obs]
}

func admString(m map[string]bool) string {
	var ks []string
	for _, k := range []string{"T", "F", "U", "E"} {
		if m[k] {
			ks = append(ks, k)
		}
	}
	return "{" + strings.Join(ks, ",") + "}"
}

func checkC11(c Case) *Failure {
	switch c.Rule {
	case "truth-table":
		op, a, b := c.Extra["op"], c.Extra["a"], c.Extra["b"]
		adm := c11Admissible(op, a, b)
		obs, detail := c11Observe(c.Extra["mode"], c.Extra["ctx"], c.Path)
		if obs == "?" {
			return &Failure{Sig: fmt.Sprintf("C11/unexpected-observation/%s/%s", op, c.Extra["ctx"]), Expected: admString(adm), Observed: detail}
		}
		if !c11Compatible(obs, adm, c.Extra["ctx"]) {
			sig := fmt.Sprintf("C11/truth-table/%s(%s,%s)=%s/%s/%s", op, a, b, obs, c.Extra["mode"], c.Extra["ctx"])
			if op == "is unknown" && a == "E" && (obs == "T" || obs == "TF" || obs == "U") ||
				c.Extra["ctx"] == "filter-isunknown" && adm["E"] && obs == "U" {
				// the recorded defect: an operand's hard error read as "unknown" by an enclosing is unknown
				sig = "C11/known/isunknown-swallows-hard-error"
			}
			return &Failure{Sig: sig, Expected: op + " over (" + a + "," + b + ") in " + admString(adm), Observed: obs + ": " + detail}
		}
		return nil
	case "operand-realisation":
		obs, detail := c11Observe(c.Extra["mode"], "top", c.Path)
		if obs != c.Extra["a"] {
			return &Failure{Sig: "C11/realisation/" + c.Extra["a"] + "-observed-" + obs + "/" + c.Extra["mode"], Expected: c.Extra["a"], Observed: detail}
		}
		return nil
	case "law":
		return checkC11Law(c)
	case "compound-consistency":
		// whatever outcome a compound condition p has as a predicate check, !(p) is its Kleene negation
		// (an error stays an error), (p) is unknown is true exactly for unknown, and WithSilent changes nothing
		p := c.Path
		mode := c.Extra["mode"]
		o1, d1 := c11Observe(mode, "top", p)
		if o1 == "?" {
			return &Failure{Sig: "C11/compound/unexpected-observation", Expected: "T, F, U or E", Observed: d1}
		}
		if os, ds := c11Observe(mode, "top-silent", p); os != o1 {
			return &Failure{Sig: "C11/compound/silent-changes-the-outcome/" + o1 + "-" + os, Expected: o1 + ": " + d1, Observed: os + ": " + ds}
		}
		wantNot := map[string]string{"T": "F", "F": "T", "U": "U", "E": "E"}[o1]
		if on, dn := c11Observe(mode, "top", "!("+p+")"); on != wantNot {
			return &Failure{Sig: "C11/compound/negation-of-" + o1 + "-is-" + on, Expected: wantNot + " (p: " + d1 + ")", Observed: dn}
		}
		wantU := map[string]string{"T": "F", "F": "F", "U": "T", "E": "E"}[o1]
		if ou, du := c11Observe(mode, "top", "("+p+") is unknown"); ou != wantU {
			sig := "C11/compound/is-unknown-of-" + o1 + "-is-" + ou
			if o1 == "E" && ou == "T" {
				sig = "C11/known/isunknown-swallows-hard-error"
			}
			return &Failure{Sig: sig, Expected: wantU + " (p: " + d1 + ")", Observed: du}
		}
		if of, df := c11Observe(mode, "filter", p); !(of == "E" && o1 == "E" || of == "T" && o1 == "T" || of == "FU" && (o1 == "F" || o1 == "U")) {
			return &Failure{Sig: "C11/compound/filter-disagrees/" + o1 + "-" + of, Expected: o1 + ": " + d1, Observed: of + ": " + df}
		}
		return nil
	case "ended-context-operand":
		// the E operand realised by the context ending while the operand of is unknown is evaluated
		out, pc, _ := c20Run(c, int64(c.K))
		if !pc.fired.Load() {
			return nil
		}
		if out.Class == "ok" || out.Class == "null" {
			return &Failure{Sig: "C11/is-unknown-over-ended-context/" + c.Extra["err"] + "/" + c.Extra["ctx"], Expected: "a non-suppressible error: the operand did not evaluate to unknown, the context ended (" + c.Extra["err"] + ")", Observed: out.String()}
		}
		return nil
	}
	panic("harness: C11 rule " + c.Rule)
}

func runC11(r *Run) {
	r.Rule("complete truth tables: for each connective (&&, ||, !, is unknown) every assignment of {T,F,U,E(hard error)} to its operands, each outcome realised by EVERY member of a family of 9-13 realisations (comparison, exists, starts with, like_regex, nested connective, is unknown, arithmetic error, strict structural error; hard errors from an unbound variable, from a zone-less vs zone-aware datetime comparison without WithTZ, from a tz-requiring cast and from an invalid decimal precision) => all ordered pairs of realisations, observed as a top-level predicate check (Query, Match, Match and ExistsOrMatch under WithSilent), inside a filter, inside exists(filter), in both modes, against the Kleene tables (with an E operand: {hard error} or the value decided by the other operand); E also realised by the context ending at the k-th poll (every k; Canceled, DeadlineExceeded, cancel-with-cause) while the operand of is unknown is evaluated; every compound (a op b) over all ordered pairs of realisations taken as a whole: !(p) is the negation of p's own outcome, (p) is unknown true exactly for unknown, the same outcome under WithSilent and inside a filter; then the laws (commutativity in value, double negation, De Morgan, is unknown two-valued) over all ordered pairs of a generated condition pool x all documents of <=3 nodes; non-trivial = every evaluated combination (each is a distinct program)")
	type job struct{ c Case }
	var jobs []Case
	modes := []string{"lax", "strict"}
	for _, mode := range modes {
		for out, fam := range kleeneFamilies {
			for _, re := range fam {
				if re.mode != "" && re.mode != mode {
					continue
				}
				jobs = append(jobs, Case{Rule: "operand-realisation", Path: re.text, Doc: c11Doc, Extra: map[string]string{"mode": mode, "a": out}})
			}
		}
	}
	ctxs := []string{"top", "match", "match-silent", "existsormatch-silent", "filter", "exists", "filter-isunknown"}
	outs := []string{"T", "F", "U", "E"}
	for _, mode := range modes {
		for _, a := range outs {
			for _, ra := range kleeneFamilies[a] {
				if ra.mode != "" && ra.mode != mode {
					continue
				}
				for _, ctx := range ctxs {
					jobs = append(jobs,
						Case{Rule: "truth-table", Path: "!(" + ra.text + ")", Doc: c11Doc, Extra: map[string]string{"mode": mode, "ctx": ctx, "op": "!", "a": a, "b": "-"}},
						Case{Rule: "truth-table", Path: "(" + ra.text + ") is unknown", Doc: c11Doc, Extra: map[string]string{"mode": mode, "ctx": ctx, "op": "is unknown", "a": a, "b": "-"}})
				}
				for _, b := range outs {
					for _, rb := range kleeneFamilies[b] {
						if rb.mode != "" && rb.mode != mode {
							continue
						}
						for _, op := range []string{"&&", "||"} {
							for _, ctx := range ctxs {
								jobs = append(jobs, Case{Rule: "truth-table", Path: "(" + ra.text + ") " + op + " (" + rb.text + ")", Doc: c11Doc,
									Extra: map[string]string{"mode": mode, "ctx": ctx, "op": op, "a": a, "b": b}})
							}
						}
					}
				}
			}
		}
	}
	r.Bound("truth_table_cases", len(jobs))
	cells := map[string]bool{}
	r.ParFor(len(jobs), func(i int) {
		c := jobs[i]
		r.evals.Add(1)
		r.traces.Add(1)
		r.transitions.Add(1)
		if f := checkC11(c); f != nil {
			r.Fail(c, f)
		}
		r.Distinct(c.Path + "|" + c.Extra["mode"] + "|" + c.Extra["ctx"])
		if c.Rule == "truth-table" {
			r.mu.Lock()
			cells[c.Extra["op"]+"("+c.Extra["a"]+","+c.Extra["b"]+")/"+c.Extra["mode"]+"/"+c.Extra["ctx"]] = true
			r.mu.Unlock()
		}
		if i%5003 == 0 {
			r.Sample(c)
		}
	})
	r.states.Add(int64(len(cells)))
	r.Extra("truth_table_cells_covered", len(cells))
	// compound consistency: every ordered pair of realisations under && and ||, the compound taken as a whole
	var cjobs []Case
	for _, mode := range modes {
		for _, a := range outs {
			for _, ra := range kleeneFamilies[a] {
				if ra.mode != "" && ra.mode != mode {
					continue
				}
				for _, b := range outs {
					for _, rb := range kleeneFamilies[b] {
						if rb.mode != "" && rb.mode != mode {
							continue
						}
						for _, op := range []string{"&&", "||"} {
							cjobs = append(cjobs, Case{Rule: "compound-consistency", Path: "(" + ra.text + ") " + op + " (" + rb.text + ")", Doc: c11Doc, Extra: map[string]string{"mode": mode}})
						}
					}
				}
			}
		}
	}
	r.Bound("compound_consistency_cases", len(cjobs))
	r.ParFor(len(cjobs), func(i int) {
		r.evals.Add(1)
		r.traces.Add(5)
		r.transitions.Add(5)
		if f := checkC11(cjobs[i]); f != nil {
			r.Fail(cjobs[i], f)
		}
	})
	// E realised by an ended context: (p) is unknown for every realisation p, at top level and in a filter,
	// the context reporting done from the k-th poll for every k, three kinds of ended context
	var ejobs []Case
	for _, mode := range modes {
		prefix := ""
		if mode == "strict" {
			prefix = "strict "
		}
		for _, a := range []string{"T", "F", "U"} {
			for _, ra := range kleeneFamilies[a] {
				if ra.mode != "" && ra.mode != mode {
					continue
				}
				for ctxKind, text := range map[string]string{"top": prefix + "(" + ra.text + ") is unknown", "filter": prefix + "$ ? ((" + ra.text + ") is unknown)"} {
					for _, ek := range []string{"canceled", "deadline", "cause"} {
						for _, silent := range []bool{false, true} {
							ejobs = append(ejobs, Case{Rule: "ended-context-operand", Path: text, Doc: c11Doc, Num: "float64", Silent: silent, Entry: "query",
								Extra: map[string]string{"err": ek, "ctx": ctxKind, "mode": mode}})
						}
					}
				}
			}
		}
	}
	r.Bound("ended_context_cases", len(ejobs))
	r.ParFor(len(ejobs), func(i int) {
		c := ejobs[i]
		_, bpc, _ := c20Run(c, -1)
		n := bpc.polls.Load()
		for k := int64(0); k < n; k++ {
			c.K = int(k)
			r.evals.Add(1)
			r.traces.Add(1)
			r.transitions.Add(1)
			if f := checkC11(c); f != nil {
				r.Fail(c, f)
			}
		}
		r.Distinct(c.Path + "|" + c.Extra["err"] + fmt.Sprint(c.Silent))
	})
	runC11Laws(r)
}
