package main

// E7: reflect/unsafe deep fingerprint of everything a call could share with
// another call: the *Path (all private node fields), documents and variable
// maps (including the hidden capacity of slices beyond their length).

import (
	"fmt"
	"hash/fnv"
	"reflect"
	"sort"
	"unsafe"
)

type fpWalker struct {
	h    interface{ Write([]byte) (int, error) }
	seen map[uintptr]int
}

func fingerprint(vals ...any) uint64 {
	h := fnv.New64a()
	w := &fpWalker{h: h, seen: map[uintptr]int{}}
	for _, v := range vals {
		w.walk(reflect.ValueOf(v), 0)
		w.str("|")
	}
	return h.Sum64()
}

func (w *fpWalker) str(s string) { _, _ = w.h.Write([]byte(s)) }

func readable(v reflect.Value) reflect.Value {
	if v.CanInterface() {
		return v
	}
	if v.CanAddr() {
		return reflect.NewAt(v.Type(), unsafe.Pointer(v.UnsafeAddr())).Elem()
	}
	// copy to an addressable location
	c := reflect.New(v.Type()).Elem()
	c.Set(v)
	return c
}

func (w *fpWalker) walk(v reflect.Value, depth int) {
	if !v.IsValid() {
		w.str("<nil>")
		return
	}
	if depth > 200 {
		w.str("<deep>")
		return
	}
	switch v.Kind() {
	case reflect.Bool:
		w.str(fmt.Sprint("b", v.Bool()))
	case reflect.Int, reflect.Int8, reflect.Int16, reflect.Int32, reflect.Int64:
		w.str(fmt.Sprint("i", v.Int()))
	case reflect.Uint, reflect.Uint8, reflect.Uint16, reflect.Uint32, reflect.Uint64, reflect.Uintptr:
		w.str(fmt.Sprint("u", v.Uint()))
	case reflect.Float32, reflect.Float64:
		w.str(fmt.Sprint("f", v.Float()))
	case reflect.String:
		w.str("s" + v.String())
	case reflect.Interface:
		if v.IsNil() {
			w.str("<nilif>")
			return
		}
		e := v.Elem()
		w.str("I" + e.Type().String())
		w.walk(e, depth+1)
	case reflect.Pointer:
		if v.IsNil() {
			w.str("<nilptr>")
			return
		}
		addr := v.Pointer()
		if n, ok := w.seen[addr]; ok {
			w.str(fmt.Sprint("^", n))
			return
		}
		w.seen[addr] = len(w.seen)
		t := v.Type().Elem()
		if t.PkgPath() == "regexp" || t.PkgPath() == "regexp/syntax" || t.PkgPath() == "time" || t.PkgPath() == "sync" {
			// opaque library state: presence only (a cached compiled regexp shows as "present")
			w.str("<" + t.String() + ">")
			return
		}
		w.str("*")
		w.walk(v.Elem(), depth+1)
	case reflect.Struct:
		w.str("{" + v.Type().String())
		for i := 0; i < v.NumField(); i++ {
			f := v.Field(i)
			if !f.CanInterface() {
				if !v.CanAddr() {
					c := reflect.New(v.Type()).Elem()
					c.Set(v)
					v = c
					f = v.Field(i)
				}
				f = reflect.NewAt(f.Type(), unsafe.Pointer(f.UnsafeAddr())).Elem()
			}
			w.str(v.Type().Field(i).Name + ":")
			w.walk(f, depth+1)
		}
		w.str("}")
	case reflect.Slice:
		if v.IsNil() {
			w.str("<nilslice>")
			return
		}
		w.str(fmt.Sprint("[", v.Len(), "/"))
		// include the hidden capacity: a write beyond len into a shared backing array is shared state
		full := v.Slice3(0, v.Cap(), v.Cap())
		for i := 0; i < full.Len(); i++ {
			if i == v.Len() {
				w.str("//hidden:")
			}
			w.walk(full.Index(i), depth+1)
			w.str(",")
		}
		w.str("]")
	case reflect.Array:
		w.str("[")
		for i := 0; i < v.Len(); i++ {
			w.walk(v.Index(i), depth+1)
			w.str(",")
		}
		w.str("]")
	case reflect.Map:
		if v.IsNil() {
			w.str("<nilmap>")
			return
		}
		keys := v.MapKeys()
		sort.Slice(keys, func(i, j int) bool { return fmt.Sprint(keys[i]) < fmt.Sprint(keys[j]) })
		w.str("map{")
		for _, k := range keys {
			w.walk(k, depth+1)
			w.str("=>")
			w.walk(v.MapIndex(k), depth+1)
			w.str(",")
		}
		w.str("}")
	case reflect.Func, reflect.Chan, reflect.UnsafePointer:
		if v.IsNil() {
			w.str("<nilfn>")
		} else {
			w.str("<fn>")
		}
	default:
		w.str("?" + v.Kind().String())
	}
}
