package main

// C17 — datetime methods parse, cast and compare by the time-zone rules.

import (
	"fmt"
	"strings"
)

// (America/Chicago and Asia/Shanghai share the abbreviation CST with different offsets)
var c17Zones = []string{"", "UTC", "+05:30", "-08:00", "America/New_York", "Australia/Lord_Howe", "America/Chicago", "Asia/Shanghai", "Australia/Sydney",
	// the extremes of the offset range, and contexts whose zone replaces an earlier one
	"+14:00", "+12:45", "-12:00", "UTC<-+05:30", "-08:00<-UTC", "+05:30<--08:00"}

func c17Strings(thorough bool) []string {
	// (2015-10-04 / 2015-04-05: DST transitions of Australia/Sydney and Lord_Howe; 2015-11-01 / 03-08: New York)
	dates := []string{"0001-01-01", "1999-12-31", "2000-02-29", "2015-08-02", "2015-11-01", "2015-03-08", "2015-10-04", "2015-04-05", "9999-12-31"}
	// (02:30-06:30 fall into the hours around the DST transitions of 2015-03-08 / 2015-11-01 in New York)
	times := []string{"00:00:00", "01:30:00", "02:30:00", "03:30:00", "06:30:00", "12:34:56", "23:59:59"}
	fracs := []string{"", ".5", ".12", ".123", ".1234", ".12345", ".123456", ".1234567", ".12345678", ".123456789", ".999999", ".9999995", ".9999999", ".0000005", ".999"}
	offs := []string{"-12", "-12:00", "-04", "-04:00", "-03:30", "Z", "+00", "+00:00", "+05:30", "+14", "+14:00", "+01"}
	fracs = append(fracs, ",5", ",123456789", ",9999995")
	if !thorough {
		fracs = []string{"", ".5", ".123", ".123456", ".1234567", ".123456789", ".9999995", ".999", ",5", ",1234567", ",9999995"}
		offs = []string{"-12", "-04:00", "-03:30", "Z", "+00", "+05:30", "+14:00"}
	}
	var out []string
	out = append(out, dates...)
	for _, t := range times {
		for _, f := range fracs {
			out = append(out, t+f)
			for _, o := range offs {
				out = append(out, t+f+o)
			}
		}
	}
	for di, d := range dates {
		for ti, t := range times {
			for fi, f := range fracs {
				if !thorough && (di+ti+fi)%3 != 0 {
					continue // quick: a fixed third of the product (each date, time and fraction still occurs with every separator)
				}
				for _, sep := range []string{"T", " "} {
					out = append(out, d+sep+t+f)
					for _, o := range offs {
						out = append(out, d+sep+t+f+o)
					}
				}
			}
		}
	}
	// unrecognised forms
	out = append(out, "", "x", "2015-08-2", "2015-13-01", "2015-02-30", "2015-08-02T", "24:00:00", "12:60:00", "12:34:60", "12:34", "2015-08-02T12:34", "2015-08-02t12:34:56",
		"2015-08-02 12:34:56 +05:30", "12:34:56+5", "12:34:56+05:3", "12:34:56+0530", "15-08-02", "2015/08/02", " 2015-08-02", "2015-08-02 ", "12:34:56.", "+05:30",
		"10000-01-01", "0000-01-01", "2015-08-02Z", "2015-08-02+05:30")
	return out
}

func c17Paths() []Path {
	var es []*Expr
	a := func(steps ...*Expr) *Expr { return eVar("a", steps...) }
	es = append(es, a(sDT("datetime", nil)), a(sDT("date", nil)))
	for _, m := range []string{"time", "time_tz", "timestamp", "timestamp_tz"} {
		es = append(es, a(sDT(m, nil)))
		for p := int64(0); p <= 7; p++ {
			p := p
			es = append(es, a(sDT(m, &p)))
		}
	}
	es = append(es, a(sDT("datetime", nil), sMethod("type")), a(sDT("timestamp_tz", nil), sMethod("string")), a(sDT("time_tz", nil), sMethod("string")), a(sDT("datetime", nil), sMethod("string")))
	tpl := "HH24:MI"
	es = append(es, a(&Expr{K: KDT, S: "datetime", T: &tpl}))
	big := int64(2147483648)
	es = append(es, a(sDT("time", &big)))
	return bothModes(es)
}

func checkC17(c Case) *Failure {
	switch c.Rule {
	case "compare":
		return c17Compare(c)
	case "transitivity":
		return c17Triple(c)
	case "result-string-roundtrip":
		return c17ResultRoundTrip(c)
	case "exists-vs-query":
		p, err, pan := parseCached(c.Path)
		if err != nil || pan != "" {
			return nil
		}
		cfg := cfgOf(c)
		q, e := implQuery(p, nil, cfg), implExists(p, nil, cfg)
		if (q.Class == "ok" && (e.Class != "ok" || e.Bool != (len(q.Items) > 0))) || (q.Class != "ok" && e.Class == "ok" && e.Bool) || (q.Class == "hard" && e.Class != "hard") {
			return &Failure{Sig: "C17/exists-vs-query", Expected: "Query: " + q.String(), Observed: "Exists: " + e.String()}
		}
		return nil
	}
	f, _ := compareQueryWithRef("C17", c, nil)
	return f
}

// ---- comparisons ----

type c17Val struct{ s, m string } // string and the method that types it

func c17CmpGrid() []c17Val {
	var out []c17Val
	for _, d := range []string{"2015-08-01", "2015-08-02", "2015-08-03", "2015-11-01", "2015-10-04", "0001-01-01", "9999-12-31", "1677-09-21", "2262-04-12"} {
		out = append(out, c17Val{d, "date"})
	}
	for _, t := range []string{"00:00:00", "12:00:00", "12:00:00.5", "23:59:59"} {
		out = append(out, c17Val{t, "time"})
	}
	for _, t := range []string{"12:00:00+00", "13:00:00+01", "12:00:00+01", "06:30:00-05:30", "12:00:00-04", "23:59:59+14",
		// the instant of 12:00:00 under the context offsets +05:30 / -08:00, spelled with offsets between 0 and the context's, at it, and beyond
		"07:30:00+01", "06:30:00+00", "12:00:00+05:30", "13:30:00+07", "17:00:00-03", "20:00:00+00", "12:00:00-08", "10:00:00-10"} {
		out = append(out, c17Val{t, "time_tz"})
	}
	for _, t := range []string{"2015-08-02T00:00:00", "2015-08-01T20:00:00", "2015-08-02T04:00:00", "2015-08-02T12:00:00", "2015-11-01T01:30:00", "2015-08-01T18:30:00", "2015-08-02T05:30:00", "2015-10-04T00:00:00"} {
		out = append(out, c17Val{t, "timestamp"})
	}
	for _, t := range []string{"2015-08-02T00:00:00+00:00", "2015-08-02T01:00:00+01:00", "2015-08-01T20:00:00-04:00", "2015-08-02T00:00:00-04:00", "2015-08-02T04:00:00+00:00",
		"2015-08-02T00:00:00+05:30", "2015-08-01T18:30:00+00:00", "2015-08-02T08:00:00+00:00", "2015-08-02T00:00:00-08:00", "2015-11-01T05:30:00+00:00", "2015-11-01T06:30:00+00:00", "2015-10-03T14:00:00+00:00", "2015-10-03T13:00:00+00:00",
		// 10 to 14 hours before / after local midnight of 2015-08-02 in the extreme zones
		"0001-01-01T00:00:00+00:00", "9999-12-31T23:59:59+00:00", "1677-09-21T00:12:43+00:00", "2262-04-11T23:47:17+00:00",
		"2015-08-01T11:00:00+00:00", "2015-08-01T10:00:00+00:00", "2015-08-01T09:59:59+00:00", "2015-08-02T12:00:00+00:00", "2015-08-02T11:59:59+00:00", "2015-08-01T12:00:00+00:00"} {
		out = append(out, c17Val{t, "timestamp_tz"})
	}
	return out
}

func c17CmpObserve(x, y c17Val, op string, tz bool, zone string, castTo string) (string, string) {
	mx, my := x.m, y.m
	if castTo != "" {
		mx, my = castTo, castTo // the explicit cast: the method parses the string and casts it to the common type
	}
	text := "$a." + mx + "() " + op + " $b." + my + "()"
	p, err, pan := parseCached(text)
	if err != nil || pan != "" {
		return "?", fmt.Sprint(text, err, pan)
	}
	o := implQuery(p, nil, runCfg{vars: map[string]any{"a": x.s, "b": y.s}, tz: tz, zone: zone})
	switch {
	case o.Class == "hard":
		return "E", text + " => " + o.String()
	case o.Class == "soft":
		return "S", text + " => " + o.String()
	case o.Class != "ok" || len(o.Items) != 1:
		return "?", text + " => " + o.String()
	}
	switch o.Items[0] {
	case true:
		return "T", text
	case false:
		return "F", text
	case nil:
		return "U", text
	}
	return "?", text
}

func commonCast(a, b string) string {
	isTime := func(m string) bool { return m == "time" || m == "time_tz" }
	if isTime(a) != isTime(b) {
		return ""
	}
	if a == b {
		return ""
	}
	if isTime(a) {
		return "time_tz"
	}
	if a == "timestamp_tz" || b == "timestamp_tz" {
		return "timestamp_tz"
	}
	return "timestamp"
}

func c17Compare(c Case) *Failure {
	x := c17Val{c.Extra["x"], c.Extra["xm"]}
	y := c17Val{c.Extra["y"], c.Extra["ym"]}
	kinds := x.m + "," + y.m
	zoneTag := c.Zone
	if zoneTag == "" {
		zoneTag = "nozone"
	}
	tzTag := map[bool]string{true: "tz", false: "notz"}[c.TZ]
	fixedZone := c.Zone == "" || c.Zone == "UTC" || c.Zone[0] == '+' || c.Zone[0] == '-'
	timeMix := (x.m == "time") != (y.m == "time") && (x.m == "time" || x.m == "time_tz") && (y.m == "time" || y.m == "time_tz")
	if timeMix && !fixedZone {
		return nil // time -> timetz under a DST zone depends on the current date
	}
	for _, op := range cmpOps {
		o, detail := c17CmpObserve(x, y, op, c.TZ, c.Zone, "")
		if o == "?" || o == "S" {
			return &Failure{Sig: "C17/compare/unexpected-outcome/" + kinds, Expected: "true, false, null or the tz-required error", Observed: detail}
		}
		// reference
		rc := newRefCtx(false, nil, nil, c.TZ, zoneOf(c.Zone))
		xv, e1 := c12RefValue(c12Val{tag: "s:" + x.s, suffix: "." + x.m + "()"}, rc)
		yv, e2 := c12RefValue(c12Val{tag: "s:" + y.s, suffix: "." + y.m + "()"}, rc)
		if e1 != nil || e2 != nil {
			return &Failure{Sig: "C17/harness/grid-value-does-not-parse", Expected: "grid values parse", Observed: fmt.Sprint(x, y, e1, e2)}
		}
		t, err := rc.compare(op, xv, yv)
		want := [...]string{"F", "T", "U"}[t]
		if err != nil {
			want = "E"
		}
		if rc.declined == "" && o != want {
			return &Failure{Sig: fmt.Sprintf("C17/compare/%s/%s=%s-want-%s/%s/%s", kinds, op, o, want, tzTag, zoneClass(c.Zone)), Expected: want, Observed: o + ": " + detail}
		}
		// the tz-required error is an error wherever the comparison stands: negated, under a connective
		// whose other operand does not decide, and as a filter condition
		if o == "E" && op == "<" {
			for _, wrap := range []string{"!(%s)", "!(!(%s))", "(%s) && (1 == 1)", "(1 == 2) || (%s)", "!((%s) || (1 == 2))", "$ ? (!(%s))", "exists($ ? (%s))"} {
				text := strings.Replace(wrap, "%s", "$a."+x.m+"() "+op+" $b."+y.m+"()", 1)
				pw, perr, ppan := parseCached(text)
				if perr != nil || ppan != "" {
					return &Failure{Sig: "C17/harness/wrapped-comparison-does-not-parse", Expected: "parses", Observed: text}
				}
				ow := implQuery(pw, nil, runCfg{vars: map[string]any{"a": x.s, "b": y.s}, tz: c.TZ, zone: c.Zone})
				if ow.Class != "hard" {
					return &Failure{Sig: "C17/compare/tz-error-lost/" + kinds + "/" + strings.Replace(wrap, "%s", "C", 1), Expected: "the tz-required error of " + detail, Observed: text + " => " + ow.String()}
				}
			}
		}
		// the same comparison with the left operand delivered twice through [*] (a sequence of two equal
		// items): lax comparison is existential, so the outcome is the same
		if op == "<" || op == "==" {
			mtext := "$c[*]." + x.m + "() " + op + " $b." + y.m + "()"
			pm, perr, ppan := parseCached(mtext)
			if perr != nil || ppan != "" {
				return &Failure{Sig: "C17/harness/multi-item-comparison-does-not-parse", Expected: "parses", Observed: mtext}
			}
			om := implQuery(pm, nil, runCfg{vars: map[string]any{"c": []any{x.s, x.s}, "b": y.s}, tz: c.TZ, zone: c.Zone})
			got := "?"
			switch {
			case om.Class == "hard":
				got = "E"
			case om.Class == "ok" && len(om.Items) == 1 && om.Items[0] == true:
				got = "T"
			case om.Class == "ok" && len(om.Items) == 1 && om.Items[0] == false:
				got = "F"
			case om.Class == "ok" && len(om.Items) == 1 && om.Items[0] == nil:
				got = "U"
			}
			if got != o {
				return &Failure{Sig: "C17/compare/two-equal-items-differ-from-one/" + kinds + "/" + zoneClass(c.Zone), Expected: o + ": " + detail, Observed: got + ": " + mtext + " => " + om.String()}
			}
		}
		// duality
		m, _ := c17CmpObserve(y, x, map[string]string{"<": ">", ">": "<", "<=": ">=", ">=": "<=", "==": "==", "!=": "!="}[op], c.TZ, c.Zone, "")
		if m != o {
			return &Failure{Sig: "C17/compare/antisymmetry/" + kinds + "/" + op, Expected: o, Observed: m + " for the mirrored comparison"}
		}
		// comparing equals comparing after explicit casts to the common type
		if cast := commonCast(x.m, y.m); cast != "" && c.TZ {
			cc, cdetail := c17CmpObserve(x, y, op, c.TZ, c.Zone, cast)
			if cc != o {
				return &Failure{Sig: "C17/compare/cast-coherence/" + kinds + "/" + zoneClass(c.Zone), Expected: "same as after ." + cast + "(): " + cc + " (" + cdetail + ")", Observed: o + ": " + detail}
			}
		}
	}
	return nil
}

func zoneClass(z string) string {
	switch {
	case z == "":
		return "nozone"
	case z == "UTC":
		return "utc"
	case z[0] == '+' || z[0] == '-':
		return "fixed"
	}
	return "named"
}

func c17Triple(c Case) *Failure {
	x := c17Val{c.Extra["x"], c.Extra["xm"]}
	y := c17Val{c.Extra["y"], c.Extra["ym"]}
	z := c17Val{c.Extra["z"], c.Extra["zm"]}
	for _, op := range []string{"<", "==", "<="} {
		a, _ := c17CmpObserve(x, y, op, true, c.Zone, "")
		b, _ := c17CmpObserve(y, z, op, true, c.Zone, "")
		if a == "T" && b == "T" {
			if cc, d := c17CmpObserve(x, z, op, true, c.Zone, ""); cc != "T" {
				return &Failure{Sig: "C17/compare/transitivity/" + op + "/" + x.m + "," + y.m + "," + z.m + "/" + zoneClass(c.Zone), Expected: "x " + op + " z", Observed: cc + ": " + d + " with y=" + y.s}
			}
		}
	}
	return nil
}

func runC17(r *Run) {
	r.Rule("a grid of datetime strings (5 kinds x 9 dates incl. year/day boundaries and the DST transition days of New York and Sydney/Lord Howe x 7 times x 8-15 fractions of 0..9 digits incl. rounding carries x 7-12 offset spellings -12..+14 incl. half hours, Z, +hh and +hh:mm x T/space, plus 28 unrecognised forms) x six methods x precisions 0..7 and absent x {WithTZ, not} x context zones {none, UTC, +05:30, -08:00, America/New_York, Australia/Lord_Howe, America/Chicago, Asia/Shanghai, Australia/Sydney, +14:00, +12:45, -12:00, and contexts whose zone replaces an earlier one (UTC over +05:30, -08:00 over UTC, +05:30 over -08:00)} against the reference civil-time model (recognised forms, resulting type, cast matrix with the tz-required error, rounding to min(p,6)); all ordered pairs of a 59-value comparison grid (incl. years 1, 1677, 2262, 9999) (incl. the Sydney/Lord Howe transition day 2015-10-04) x 6 operators x zones: reference order, antisymmetry, comparison = comparison after explicit casts to the common type, time vs date/timestamp unknown; all triples for transitivity; non-trivial = reference yields items or an error")
	strs := c17Strings(r.Thorough())
	paths := c17Paths()
	r.Bound("datetime_strings", len(strs))
	r.Bound("method_paths", len(paths))
	var cfgs []sweepCfg
	for _, s := range strs {
		for _, z := range c17Zones {
			cfgs = append(cfgs, sweepCfg{Num: "float64", Vars: map[string]string{"a": "s:" + s}, TZ: true, Zone: z})
		}
		cfgs = append(cfgs, sweepCfg{Num: "float64", Vars: map[string]string{"a": "s:" + s}, TZ: false}, sweepCfg{Num: "float64", Vars: map[string]string{"a": "s:" + s}, TZ: false, Zone: "+05:30"})
	}
	r.Bound("configurations", len(cfgs))
	refSweep(r, "datetime-methods-vs-reference", paths, makeDocs([]any{nil}), cfgs)

	// the existence-only evaluation of the same method calls: Exists is true iff Query delivers an item
	// and never true where Query fails (one fifth of the strings per path)
	r.ParFor(len(paths), func(i int) {
		text := paths[i].String()
		p, err, pan := parseCached(text)
		if err != nil || pan != "" {
			return
		}
		r.Note(i, text)
		for si := i % 5; si < len(strs); si += 5 {
			for _, tz := range []bool{true, false} {
				cfg := runCfg{vars: map[string]any{"a": strs[si]}, tz: tz, zone: "+05:30"}
				q, e := implQuery(p, nil, cfg), implExists(p, nil, cfg)
				r.evals.Add(1)
				r.traces.Add(2)
				bad := ""
				switch {
				case q.Class == "ok" && (e.Class != "ok" || e.Bool != (len(q.Items) > 0)):
					bad = "exists-differs-from-successful-query"
				case q.Class != "ok" && e.Class == "ok" && e.Bool:
					bad = "exists-true-although-query-fails"
				case q.Class == "hard" && e.Class != "hard":
					bad = "exists-loses-non-suppressible-error"
				}
				if bad != "" {
					c := Case{Rule: "exists-vs-query", Path: text, TZ: tz, Zone: "+05:30", Vars: map[string]string{"a": "s:" + strs[si]}}
					r.Fail(c, &Failure{Sig: "C17/" + bad, Expected: "Query: " + q.String(), Observed: "Exists: " + e.String()})
				}
			}
		}
	})
	// a value a method returns equals the value obtained from its own .string() rendering (also after
	// rounding carries): relation between real executions
	var rts []Case
	for _, s := range strs {
		for _, m := range []string{"time", "time_tz", "timestamp", "timestamp_tz"} {
			for _, p := range []string{"", "0", "3", "6"} {
				rts = append(rts, Case{Rule: "result-string-roundtrip", TZ: true, Zone: "+05:30", Extra: map[string]string{"a": s, "m": m, "p": p}})
			}
		}
	}
	r.ParFor(len(rts), func(i int) {
		r.evals.Add(1)
		if f := c17ResultRoundTrip(rts[i]); f != nil {
			r.Fail(rts[i], f)
		}
	})
	grid := c17CmpGrid()
	r.Bound("comparison_grid", len(grid))
	n := len(grid) * len(grid)
	r.ParFor(n, func(i int) {
		x, y := grid[i/len(grid)], grid[i%len(grid)]
		for _, z := range c17Zones {
			for _, tz := range []bool{true, false} {
				c := Case{Rule: "compare", TZ: tz, Zone: z, Extra: map[string]string{"x": x.s, "xm": x.m, "y": y.s, "ym": y.m}}
				r.evals.Add(1)
				r.traces.Add(18)
				if f := c17Compare(c); f != nil {
					r.Fail(c, f)
				}
			}
		}
		r.Distinct(x.s + x.m + "|" + y.s + y.m)
	})
	// transitivity over all triples of mutually comparable values
	r.ParFor(n, func(i int) {
		x, y := grid[i/len(grid)], grid[i%len(grid)]
		isTime := func(m string) bool { return strings.HasPrefix(m, "time") && !strings.HasPrefix(m, "timestamp") }
		if isTime(x.m) != isTime(y.m) {
			return
		}
		for _, zn := range []string{"UTC", "+05:30", "America/New_York"} {
			if isTime(x.m) && zn == "America/New_York" {
				continue
			}
			for _, z := range grid {
				if isTime(z.m) != isTime(x.m) {
					continue
				}
				c := Case{Rule: "transitivity", TZ: true, Zone: zn, Extra: map[string]string{"x": x.s, "xm": x.m, "y": y.s, "ym": y.m, "z": z.s, "zm": z.m}}
				r.evals.Add(1)
				if f := c17Triple(c); f != nil {
					r.Fail(c, f)
				}
			}
		}
	})
}

func c17ResultRoundTrip(c Case) *Failure {
	m, p := c.Extra["m"], c.Extra["p"]
	val := "$a." + m + "(" + p + ")"
	check, err, pan := parseCached(val + " == " + val + ".string()." + m + "()")
	direct, err2, _ := parseCached(val)
	if err != nil || err2 != nil || pan != "" {
		return &Failure{Sig: "C17/harness/parse", Expected: "parses", Observed: fmt.Sprint(err, err2, pan)}
	}
	cfg := runCfg{vars: map[string]any{"a": c.Extra["a"]}, tz: c.TZ, zone: c.Zone}
	if d := implQuery(direct, nil, cfg); d.Class != "ok" {
		return nil
	}
	if strs, e3, _ := parseCached(val + ".string()"); e3 == nil {
		if so := implQuery(strs, nil, cfg); so.Class == "ok" && len(so.Items) == 1 {
			if text, ok := so.Items[0].(string); ok && strings.HasPrefix(m, "timestamp") && (len(text) < 5 || text[4] != '-' || text[:4] == "0000") {
				return nil // the cast moved the value outside years 1..9999 (outside the property)
			}
		}
	}
	o := implQuery(check, nil, cfg)
	if o.Class != "ok" || len(o.Items) != 1 || o.Items[0] != true {
		return &Failure{Sig: "C17/result-differs-from-its-own-string/" + m, Expected: val + " equals the value parsed back from its .string() rendering", Observed: o.String() + " for a=" + c.Extra["a"]}
	}
	return nil
}
