package main

// C02 — canonical text round-trips: re-parsing String() yields the same path.

import (
	"fmt"
	"math"
	"regexp"
	"strconv"
	"strings"
	"unicode/utf8"

	"github.com/theory/sqljson/path"
)

var c02Docs = func() []any {
	vals := Docs(2, stdScalars, stdKeys)
	for _, s := range []string{`{"a":[1,2,{"b":3}],"b":"ab"}`, `[1,"a",null,[2],{"a":3}]`, `"2015-08-02"`, `-1.5`, `{"a b":1,"a":{"b":1}}`} {
		vals = append(vals, mustDoc(s, "float64"))
	}
	return vals
}()

func treeOf(p *path.Path) (string, error) {
	ap, err := astToPath(p)
	if err != nil {
		return "", err
	}
	k := pathKey(ap)
	if p.IsPredicate() {
		k = "pred " + k
	}
	// IntegerNode vs NumericNode matters: pathKey prints int(..) vs num(..)
	return k, nil
}

// c02Oracle: the round-trip oracle for one input text (which must parse).
func c02Oracle(text string, withQueries bool) *Failure {
	p, err, pan := implParse(text)
	if err != nil || pan != "" {
		return nil // not an accepted path: nothing to round-trip (C04's business)
	}
	var s string
	func() {
		defer func() {
			if r := recover(); r != nil {
				pan = fmt.Sprint(r)
			}
		}()
		s = p.String()
	}()
	if pan != "" {
		return &Failure{Sig: "C02/string-panic", Expected: "String() returns", Observed: "panic: " + pan}
	}
	shape := c02Shape(p)
	q, err, pan := implParse(s)
	if pan != "" {
		return &Failure{Sig: "C02/reparse-panic/" + shape, Expected: "Parse(String()) succeeds", Observed: fmt.Sprintf("String() = %q; panic: %s", s, pan)}
	}
	if err != nil {
		return &Failure{Sig: "C02/reparse-fails/" + shape, Expected: "Parse(String()) succeeds", Observed: fmt.Sprintf("String() = %q; error: %v", s, err)}
	}
	t1, e1 := treeOf(p)
	t2, e2 := treeOf(q)
	if e1 != nil || e2 != nil {
		return &Failure{Sig: "C02/tree-unusable/" + shape, Expected: "both trees walkable", Observed: fmt.Sprint(e1, e2)}
	}
	if t1 != t2 && p.IsLax() == q.IsLax() && p.IsPredicate() == q.IsPredicate() && integralNumAsInt(t1) == t2 {
		return &Failure{Sig: "C02/known/integral-numeric-prints-as-integer", Expected: t1, Observed: fmt.Sprintf("String() = %q reparsed as %s", s, t2)}
	}
	if t1 != t2 || p.IsLax() != q.IsLax() || p.IsPredicate() != q.IsPredicate() {
		return &Failure{Sig: "C02/tree-changed/" + shape, Expected: t1, Observed: fmt.Sprintf("String() = %q reparsed as %s", s, t2)}
	}
	if s2 := q.String(); s2 != s {
		return &Failure{Sig: "C02/not-a-fixed-point/" + shape, Expected: s, Observed: s2}
	}
	// marshalling round trips
	type rt struct {
		name string
		f    func() (*path.Path, error)
	}
	for _, m := range []rt{
		{"text", func() (*path.Path, error) {
			b, err := p.MarshalText()
			if err != nil {
				return nil, err
			}
			var x path.Path
			return &x, x.UnmarshalText(b)
		}},
		{"binary", func() (*path.Path, error) {
			b, err := p.MarshalBinary()
			if err != nil {
				return nil, err
			}
			var x path.Path
			return &x, x.UnmarshalBinary(b)
		}},
		{"value-scan-string", func() (*path.Path, error) {
			v, err := p.Value()
			if err != nil {
				return nil, err
			}
			var x path.Path
			return &x, x.Scan(v)
		}},
		{"scan-bytes", func() (*path.Path, error) {
			var x path.Path
			return &x, x.Scan([]byte(p.String()))
		}},
	} {
		var x *path.Path
		var merr error
		var mpan string
		func() {
			defer func() {
				if r := recover(); r != nil {
					mpan = fmt.Sprint(r)
				}
			}()
			x, merr = m.f()
		}()
		if mpan != "" || merr != nil {
			return &Failure{Sig: "C02/marshal-roundtrip-fails/" + m.name + "/" + shape, Expected: "round trip succeeds", Observed: fmt.Sprint(merr, mpan)}
		}
		tx, _ := treeOf(x)
		if tx != t1 || x.String() != s {
			return &Failure{Sig: "C02/marshal-roundtrip-changes/" + m.name + "/" + shape, Expected: t1, Observed: tx}
		}
	}
	// decoding into a Path that already held (and printed) another path must replace it completely
	for _, m := range []struct {
		name string
		dec  func(x *path.Path, text string) error
	}{
		{"scan", func(x *path.Path, text string) error { return x.Scan(text) }},
		{"scan-bytes", func(x *path.Path, text string) error { return x.Scan([]byte(text)) }},
		{"unmarshal-text", func(x *path.Path, text string) error { return x.UnmarshalText([]byte(text)) }},
		{"unmarshal-binary", func(x *path.Path, text string) error { return x.UnmarshalBinary([]byte(text)) }},
	} {
		var x path.Path
		var rerr error
		var rpan string
		func() {
			defer func() {
				if r := recover(); r != nil {
					rpan = fmt.Sprint(r)
				}
			}()
			if rerr = m.dec(&x, `strict $.reused ? (@ > 1)`); rerr != nil {
				return
			}
			_ = x.String()
			_, _ = x.MarshalText()
			_, _ = x.Value()
			rerr = m.dec(&x, s)
		}()
		if rpan != "" || rerr != nil {
			return &Failure{Sig: "C02/reused-destination-fails/" + m.name, Expected: "decoding into a used Path succeeds", Observed: fmt.Sprint(rerr, rpan)}
		}
		tx, _ := treeOf(&x)
		v, _ := x.Value()
		b, _ := x.MarshalText()
		if tx != t1 || x.String() != s || v != s || string(b) != s {
			return &Failure{Sig: "C02/reused-destination-keeps-old-state/" + m.name, Expected: s, Observed: fmt.Sprintf("String()=%q Value()=%v MarshalText()=%q tree=%s", x.String(), v, b, tx)}
		}
	}
	if withQueries {
		for _, d := range c02Docs {
			a, b := implQuery(p, d, runCfg{}), implQuery(q, d, runCfg{})
			same := a.Class == b.Class
			if same && a.Class == "ok" {
				same = canonMultiset(a.Items) == canonMultiset(b.Items)
			}
			if !same {
				return &Failure{Sig: "C02/behaviour-changed/" + shape, Expected: a.String(), Observed: fmt.Sprintf("String() = %q => %s", s, b.String())}
			}
		}
	}
	return nil
}

// c02Shape: coarse class of the path for signatures (node kinds at the top two levels).
func c02Shape(p *path.Path) string {
	ap, err := astToPath(p)
	if err != nil {
		return "unwalkable"
	}
	name := func(e *Expr) string {
		if e == nil {
			return "-"
		}
		n := kindNames[e.K]
		if len(e.Steps) > 0 {
			n += "+steps"
		}
		return n
	}
	return name(ap.E) + "(" + name(ap.E.A) + "," + name(ap.E.B) + ")"
}

func checkC02(c Case) *Failure { return c02Oracle(c.Extra["input"], true) }

func c02ContentCases(thorough bool) []string {
	var out []string
	runes := c03Runes(thorough)
	quote := func(r rune) string {
		// a spelling the lexer accepts for any rune
		switch {
		case r == '"' || r == '\\':
			return `\` + string(r)
		case r < 0x20 || r == 0x7f:
			return `\u` + hexw(int(r), 4)
		}
		return string(r)
	}
	for _, r := range runes {
		if !utf8.ValidRune(r) {
			continue
		}
		q := quote(r)
		out = append(out, `"`+q+`"`, `$."`+q+`"`, `$"`+q+`"`, `$ starts with "`+q+`"`, `$.datetime("`+q+`")`, `$."a`+q+`b".c`, `$ ? (@."`+q+`" == "`+q+`")`)
		// the same rune written as an escape: the parser must accept what String() then prints for it
		esc := `\u{` + hexw(int(r), 1) + `}`
		out = append(out, `"`+esc+`"`, `$."`+esc+`"`, `$"`+esc+`"`, `$ like_regex "`+esc+`" flag "q"`)
		// as a regex pattern only where it compiles
		out = append(out, `$ like_regex "`+q+`"`, `$ like_regex "`+q+`" flag "q"`)
	}
	boundary := []rune{1, 7, 8, 9, 10, 11, 12, 13, 0x1b, 0x1f, ' ', '"', '\'', '\\', '/', '$', '.', 'a', 'U', 'x', 'u', '0', 0x7f, 0x80, 0x85, 0xa0, 0xad, 0xff, 0x2028, 0x2029, 0xd7ff, 0xe000, 0xfeff, 0xfffd, 0xffff, 0x10000, 0x1f600, 0xe0001, 0x10ffff}
	for _, a := range boundary {
		for _, b := range boundary {
			out = append(out, `"`+quote(a)+quote(b)+`"`, `$."`+quote(a)+quote(b)+`"`, `$"`+quote(a)+quote(b)+`"`)
		}
	}
	// ordered triples over the characters whose escapes can interfere with each other
	tri := []rune{7, '\\', 'a', 'U', '"', 0x1f600, 0xe0001, 'u', '0', '{', 0x7f, 'x', 'b', 0x10ffff}
	for _, a := range tri {
		for _, b := range tri {
			for _, c := range tri {
				q := quote(a) + quote(b) + quote(c)
				out = append(out, `"`+q+`"`, `$."`+q+`"`, `$"`+q+`"`, `$ like_regex "`+q+`" flag "q"`)
			}
		}
	}
	// .** bounds and regex flags
	bounds := []string{"0", "1", "2", "3", "last", "4294967294", "4294967295", "4294967296"}
	for _, a := range bounds {
		out = append(out, "$.**{"+a+"}", "$.**{"+a+"}.a")
		for _, b := range bounds {
			out = append(out, "$.**{"+a+" to "+b+"}", "strict $.**{"+a+" to "+b+"}[0]")
		}
	}
	fl := allStrings("flags", []string{"i", "s", "m", "q"}, 3)
	for i := 0; i < fl.count; i++ {
		out = append(out, `$ like_regex "a.c" flag "`+fl.at(i)+`"`, `$ ? (@ like_regex "^a$" flag "`+fl.at(i)+`")`)
	}
	return out
}

func runC02(r *Run) {
	r.Rule("round trip Parse -> String -> Parse (tree through exported accessors incl. IntegerNode vs NumericNode, mode, predicate flag; String a fixed point; MarshalText/UnmarshalText, MarshalBinary/UnmarshalBinary, Value/Scan(string), Scan([]byte); same Query results on 29 documents) over: every path of the full language with <= 3 nodes and every construct nested in filters/subscripts; literals of every kind (negative numbers in particular) followed by each of 48 step kinds, alone and in 7 operand positions; every precedence/associativity shape (each operator as left/right/sole operand of each other, with and without trailing accessors, minimal and full parentheses); the numeric spelling grid in every position; every code point of a boundary set (thorough: every Unicode scalar value) as string, key, variable, starts-with argument, datetime template, like_regex pattern, and all ordered pairs of a 39-rune boundary set; every .** bound pair over {0..3,last,2^32-2..2^32}; every flag string of length <= 3; long inputs (100 / 2,000 / 20,000 repetitions of each operator, accessor, list member, parenthesis and negation); and every input the implementation accepts among all strings of length <= 4 over the C04 alphabet and all lexeme sequences of length <= 3. non-trivial = accepted inputs (distinct)")
	var texts []string
	g := newFullGen()
	for _, e := range append(g.all(3), g.constructPairs()...) {
		texts = append(texts, Path{E: e}.String(), Path{Strict: true, E: e}.String())
	}
	// literals (negative ones in particular: the sign binds looser than an accessor) followed by every
	// kind of step, alone and as operands
	for _, lit := range []*Expr{eInt(-2), eNum(-2.5), eNum(-0.5), eInt(2), eNum(2.5), eStr("a"), eTrue(), eNull(), eInt(-9223372036854775807), eVar("x")} {
		for _, t := range c03Trail() {
			for _, e := range []*Expr{lit.withSteps(t), lit.withSteps(t, sMethod("abs")), eArith("+", eInt(1), lit.withSteps(t)), eArith("*", lit.withSteps(t), eInt(3)), eNeg(lit.withSteps(t)),
				eCmp("==", lit.withSteps(t), lit), eRoot(sIndex(sub1(lit.withSteps(t)))), eRoot(sFilter(eCmp(">", eCur(), lit.withSteps(t))))} {
				texts = append(texts, Path{E: e}.String())
			}
		}
	}
	var cases []spellCase
	emit := func(sc spellCase) { cases = append(cases, sc) }
	c03SyntaxCases(r.Thorough(), emit)
	c03Cases(false, func(sc spellCase) {
		if strings.HasPrefix(sc.family, "number/") || strings.HasPrefix(sc.family, "keyword") {
			cases = append(cases, sc)
		}
	})
	for _, sc := range cases {
		texts = append(texts, sc.text)
	}
	// long inputs: flat chains of N left-associated operators, accessors, connectives, list members and
	// nested parentheses / filters (the printed form of a flat chain may nest N deep)
	for _, n := range []int{100, 2000, 20000} {
		for _, unit := range []string{" - 1", " + $.a", " * 2", " && $.a == 1", " || $.b > 2", ".a", "[0]", " ? (@ > 0)", ".abs()"} {
			head := "$.n"
			if strings.HasPrefix(unit, " &&") || strings.HasPrefix(unit, " ||") {
				head = "$.n == 0"
			}
			texts = append(texts, head+strings.Repeat(unit, n))
		}
		texts = append(texts, "$["+strings.Repeat("0, ", n)+"1]", strings.Repeat("(", n)+"$.a"+strings.Repeat(")", n), strings.Repeat("-", n)+"$.a", "$.a"+strings.Repeat(" ? (exists(@", n/10)+strings.Repeat("))", n/10),
			strings.Repeat("!(", n)+"$.a == 1"+strings.Repeat(")", n), `$."`+strings.Repeat("k", n)+`"`, strings.Repeat("1 + (", n)+"1"+strings.Repeat(")", n))
	}
	texts = append(texts, c04Seeds...)
	texts = append(texts, c02ContentCases(r.Thorough())...)
	r.Bound("generated_texts", len(texts))
	var accepted int64
	r.ParFor(len(texts), func(i int) {
		if r.Expired() {
			r.Cap("internal deadline in generated texts")
			return
		}
		t := texts[i]
		r.Note(i, t)
		r.evals.Add(1)
		if f := c02Oracle(t, true); f != nil {
			r.Fail(Case{Rule: "generated", Extra: map[string]string{"input": t}}, f)
			return
		}
		if p, _, _ := implParse(t); p != nil {
			r.traces.Add(1)
			r.Distinct(t)
			if i%9973 == 0 {
				r.Sample(map[string]string{"input": t, "canonical": p.String()})
			}
		}
	})
	_ = accepted
	// every accepted input of the exhaustive string enumerations
	L, M := 4, 3
	if r.Thorough() {
		L, M = 5, 3
	}
	r.Bound("max_string_length", L)
	for _, en := range []strEnum{allStrings("all-strings", c04Alphabet, L), allStrings("lexeme-sequences", withSpaces(c04Lexemes), M)} {
		en := en
		const chunk = 8192
		nchunks := (en.count + chunk - 1) / chunk
		r.ParFor(nchunks, func(ci int) {
			if r.Expired() {
				r.Cap("internal deadline in enumeration " + en.name)
				return
			}
			hi := (ci + 1) * chunk
			if hi > en.count {
				hi = en.count
			}
			for i := ci * chunk; i < hi; i++ {
				in := en.at(i)
				r.evals.Add(1)
				p, _, _ := implParse(in)
				if p == nil {
					continue
				}
				r.traces.Add(1)
				r.Distinct(in)
				if f := c02Oracle(in, false); f != nil {
					r.Fail(Case{Rule: en.name, Extra: map[string]string{"input": in}}, f)
				}
			}
		})
		r.Bound("enumeration "+en.name, en.count)
	}
	r.states.Add(r.distinctN.Load())
	r.transitions.Add(r.traces.Load() * 2)
}

var reIntegralNum = regexp.MustCompile(`num\(([^)]*)\)`)

// integralNumAsInt rewrites num(F) with an integral F that json.Marshal prints without
// exponent (|F| < 1e21) to int(F): the effect of the recorded defect on the tree.
func integralNumAsInt(tree string) string {
	return reIntegralNum.ReplaceAllStringFunc(tree, func(m string) string {
		f, err := strconv.ParseFloat(m[4:len(m)-1], 64)
		if err != nil || f != math.Trunc(f) || math.Abs(f) >= 1e21 || math.Abs(f) >= 9.3e18 {
			return m
		}
		return "int(" + strconv.FormatInt(int64(f), 10) + ")"
	})
}
