package main

// C08 — WithSilent suppresses exactly the suppressible errors.

import "fmt"

func sameOut(a, b Out, unordered bool, kind string) bool {
	if a.Class != b.Class {
		return false
	}
	if a.Class != "ok" {
		return true
	}
	switch kind {
	case "query":
		if unordered {
			return canonMultiset(a.Items) == canonMultiset(b.Items)
		}
		return canonList(a.Items) == canonList(b.Items)
	case "first":
		if unordered {
			return true
		}
		return canonList(a.Items) == canonList(b.Items)
	}
	return a.Bool == b.Bool
}

func c08Oracle(ec *epCase) *Failure {
	mode := "lax"
	if ec.p.Strict {
		mode = "strict"
	}
	wild := exprUses(ec.p.E, func(x *Expr) bool { return x.K == KAnyKey || x.K == KAny })
	kv := exprUses(ec.p.E, func(x *Expr) bool { return x.K == KMethod && x.S == "keyvalue" })
	unordered := wild && (multiMember(ec.doc) || usesVar(ec.p.E) || kv)
	type pair struct {
		name string
		v, s Out
	}
	sens := 0 // order sensitivity by the reference model under every member order, computed on demand
	sensitive := func() bool {
		if sens == 0 {
			sens = 1
			if c06OrderSensitive(ec) {
				sens = 2
			}
		}
		return sens == 2
	}
	pairs := []pair{{"query", ec.verbose.q, ec.silent.q}, {"first", ec.verbose.f, ec.silent.f}, {"exists", ec.verbose.e, ec.silent.e},
		{"match", ec.verbose.m, ec.silent.m}, {"existsormatch", ec.verbose.x, ec.silent.x}}
	for _, p := range pairs {
		tag := p.name + "/" + mode
		if p.v.Class == "panic" || p.s.Class == "panic" {
			return &Failure{Sig: "C08/panic/" + tag, Expected: "no panic", Observed: p.v.String() + " / " + p.s.String()}
		}
		if p.s.Class == "soft" {
			return &Failure{Sig: "C08/silent-returned-suppressible-error/" + tag, Expected: "no error wrapping ErrVerbose under WithSilent", Observed: p.s.String()}
		}
		switch p.v.Class {
		case "ok":
			if unordered && p.name != "query" && ec.verbose.q.Class != "ok" {
				continue // early exit before a failure whose position depends on member order
			}
			if unordered && sensitive() {
				continue // a failure absorbed into a value: two runs may meet the members in different orders
			}
			if !sameOut(p.v, p.s, unordered, p.name) {
				return &Failure{Sig: "C08/silent-differs-from-successful-run/" + tag, Expected: p.v.String(), Observed: p.s.String()}
			}
		case "hard", "invalid":
			if unordered {
				continue
			}
			if p.s.Class != p.v.Class {
				return c08Known(ec, &Failure{Sig: "C08/non-suppressible-error-changed/" + tag, Expected: p.v.String(), Observed: p.s.String()})
			}
		case "soft":
			if unordered {
				continue
			}
			switch p.name {
			case "query", "first":
				if p.s.Class != "ok" {
					return c08Known(ec, &Failure{Sig: "C08/suppressible-error-not-suppressed/" + p.s.Class + "/" + tag, Expected: "no error (verbose: " + p.v.String() + ")", Observed: p.s.String()})
				}
			case "exists":
				// lax: an item found before the failure had already established "true" (early exit);
				// otherwise, and always in strict mode, NULL
				ok := p.s.Class == "null" || (!ec.p.Strict && p.s.Class == "ok" && p.s.Bool && len(ec.silent.q.Items) > 0)
				if ok && !ec.p.Strict && len(ec.silent.q.Items) > 0 && p.s.Class == "null" {
					ok = false
				}
				if !ok {
					return c08Known(ec, &Failure{Sig: "C08/exists-after-suppressed-error/" + tag, Expected: "NULL (or true if an item was found before the failure in lax mode); verbose: " + p.v.String() + "; silent Query: " + ec.silent.q.String(), Observed: p.s.String()})
				}
			case "match", "existsormatch":
				if p.name == "existsormatch" && !(ec.p.E.K.isPredicate() && len(ec.p.E.Steps) == 0) {
					continue
				}
				ok := p.s.Class == "null"
				if len(ec.silent.q.Items) == 1 {
					if b, isB := ec.silent.q.Items[0].(bool); isB {
						// the sole boolean found before the failure is the established answer
						ok = p.s.Class == "ok" && b == p.s.Bool
					}
				}
				if !ok {
					return c08Known(ec, &Failure{Sig: "C08/match-after-suppressed-error/" + tag, Expected: "NULL (or the sole boolean found before the failure); verbose: " + p.v.String(), Observed: p.s.String()})
				}
			}
		}
	}
	// verbose and silent Query against the reference: which errors exist, and the items found before the failure
	for _, silent := range []bool{false, true} {
		c := ec.c
		c.Silent = silent
		f, _ := compareQueryCore("C08", ec.p, shapeOf(ec.p), ec.doc, c, nil)
		if f != nil {
			return f
		}
	}
	return nil
}

func c08Known(ec *epCase, f *Failure) *Failure {
	// attribute to a recorded defect when the reference with that defect emulated explains both Query runs
	for _, silent := range []bool{false, true} {
		c := ec.c
		c.Silent = silent
		if g, _ := compareQueryCore("C08", ec.p, shapeOf(ec.p), ec.doc, c, nil); g != nil {
			return g // carries /known/<defect> when applicable
		}
	}
	return f
}

func checkC08(c Case) *Failure { return c08Oracle(epReplay(c)) }

// predicateThenError: after every kind of predicate the enclosing path's own
// suppressible error must still be reported (verbose) and suppressed (silent).
func predicateThenError() []*Expr {
	var es []*Expr
	follow := []*Expr{sKey("zz"), sMethod("double"), sIndex(sub1(eInt(5))), sMethod("keyvalue"), sMethod("integer")}
	for _, c := range condBase() {
		for _, pf := range []*Expr{eRoot(), eRoot(sAnyArray())} {
			for _, f := range follow {
				es = append(es, pf.withSteps(sFilter(c.e), f))
			}
		}
		// predicate as an operand / path item before an erroring step
		es = append(es, substCurrent(c.e).withSteps(sMethod("double")), substCurrent(c.e).withSteps(sKey("zz")))
	}
	return es
}

func runC08(r *Run) {
	r.Rule("the C06 program/document space (full language <= 3 nodes quick, <= 4 thorough; nested constructs, error-family chains and operators) plus every predicate kind (31 conditions incl. nested filters, soft and hard failures) followed by an erroring step; all five entry points run with and without WithSilent on identical inputs; oracle: silent never returns ErrVerbose; a successful verbose run is returned unchanged; a suppressible verbose error becomes no error (Query/First: the reference's items before the failure) or NULL unless already established (Exists/Match); non-suppressible errors (unknown variable, tz-requiring cast, datetime template, invalid decimal precision/scale) keep their class; verbose and silent Query both compared with the reference model; non-trivial = Query yields items or an error")
	paths := epPaths(r)
	paths = append(paths, bothModes(predicateThenError())...)
	docs := epDocs()
	r.Bound("paths", len(paths))
	r.Bound("documents", len(docs))
	epSweep(r, "verbose-vs-silent", paths, docs, epCfgs(), c08Oracle)
	kes, kvals := keyvalueWalks()
	r.Bound("keyvalue_walk_paths", 2*len(kes))
	epSweep(r, "verbose-vs-silent", bothModes(kes), makeDocs(kvals), epCfgs()[:2], c08Oracle)
	r.states.Add(int64(len(r.outcomes)))
	_ = fmt.Sprint
}
