package main

// E5: controlled cooperative scheduler + depth-first exploration of schedules
// with a preemption bound. Real goroutines, one runnable at a time (baton
// passing). Scheduling points: every ctx.Done() poll of a scheduler-owned
// context (one per executed path item) and, when enabled, every lexer token
// (parser.VerifHook, build tag verif).

import (
	"context"
	"fmt"
	"sync/atomic"

	"github.com/theory/sqljson/path/ast"
	"github.com/theory/sqljson/path/parser"
)

type schedEvent struct {
	tid  int
	done bool
	res  string
}

type schedPoint struct {
	enabled []int // canonical order: the running thread first if still enabled, then ascending ids
	running int   // thread that ran before this point (-1 at the start)
	chosen  int   // index into enabled
}

type schedExec struct {
	points  []schedPoint
	results []string
}

func (x *schedExec) choices() []int {
	out := make([]int, len(x.points))
	for i, p := range x.points {
		out[i] = p.chosen
	}
	return out
}

// preemptionsBefore counts switches away from a still-runnable thread among points [0,i).
func (x *schedExec) preemptionsBefore(i int) int {
	n := 0
	for j := 0; j < i; j++ {
		p := x.points[j]
		if p.running >= 0 && len(p.enabled) > 0 && p.enabled[0] == p.running && p.chosen != 0 {
			n++
		}
	}
	return n
}

// threadBody runs one operation; it must call yield() at its scheduling points
// (through the context it is given) and return a canonical rendering of its result.
type threadBody func(ctx context.Context) string

// activeYield is the yield function of the thread currently running under a
// token-level exploration (nil otherwise): the lexer hook has no context.
var activeYield atomic.Pointer[func()]

func init() {
	hook := func(int) {
		if y := activeYield.Load(); y != nil {
			(*y)()
		}
	}
	parser.VerifHook = hook // every lexer token
	ast.VerifHook = hook    // every node written by String()/Marshal*
}

// runSchedule executes the bodies under the scheduler, replaying prefix and
// then always continuing the running thread (choice 0).
func runSchedule(bodies []threadBody, prefix []int, tokenYields bool) *schedExec {
	n := len(bodies)
	wake := make([]chan struct{}, n)
	events := make(chan schedEvent)
	yields := make([]func(), n)
	for i := range bodies {
		i := i
		wake[i] = make(chan struct{})
		yields[i] = func() {
			events <- schedEvent{tid: i}
			<-wake[i]
		}
		go func() {
			<-wake[i]
			pc := newPollCtx(context.Background(), -1, nil)
			pc.onPoll = yields[i]
			var res string
			func() {
				defer func() {
					if r := recover(); r != nil {
						res = fmt.Sprint("panic: ", r)
					}
				}()
				res = bodies[i](pc)
			}()
			events <- schedEvent{tid: i, done: true, res: res}
		}()
	}
	x := &schedExec{results: make([]string, n)}
	done := make([]bool, n)
	running := -1
	for step := 0; ; step++ {
		var enabled []int
		if running >= 0 && !done[running] {
			enabled = append(enabled, running)
		}
		for i := 0; i < n; i++ {
			if !done[i] && i != running {
				enabled = append(enabled, i)
			}
		}
		if len(enabled) == 0 {
			break
		}
		choice := 0
		if step < len(prefix) {
			choice = prefix[step]
			if choice >= len(enabled) {
				panic(fmt.Sprintf("harness: schedule replay diverged at step %d: choice %d of %d enabled", step, choice, len(enabled)))
			}
		}
		x.points = append(x.points, schedPoint{enabled: enabled, running: running, chosen: choice})
		t := enabled[choice]
		running = t
		if tokenYields {
			activeYield.Store(&yields[t])
		}
		wake[t] <- struct{}{}
		ev := <-events
		if tokenYields {
			activeYield.Store(nil)
		}
		if ev.tid != t {
			panic("harness: a thread other than the scheduled one ran")
		}
		if ev.done {
			done[t] = true
			x.results[t] = ev.res
		}
	}
	return x
}

type scheduleExplorer struct {
	mk          func() []threadBody // fresh shared objects and bodies for one execution
	bound       int                 // preemption bound (<0: unbounded)
	tokenYields bool
	check       func(x *schedExec) *Failure
	executions  int64
	byPreempt   map[int]int64
	maxPoints   int
	pointsTotal int64 // scheduling decisions taken over all executions (transitions)
	failure     *Failure
	failSched   []int
	cap         int64 // execution cap (0: none)
	capped      bool
}

func (e *scheduleExplorer) explore(prefix []int) {
	if e.failure != nil || e.capped {
		return
	}
	if e.cap > 0 && e.executions >= e.cap {
		e.capped = true
		return
	}
	x := runSchedule(e.mk(), prefix, e.tokenYields)
	e.executions++
	if e.byPreempt == nil {
		e.byPreempt = map[int]int64{}
	}
	e.byPreempt[x.preemptionsBefore(len(x.points))]++
	if len(x.points) > e.maxPoints {
		e.maxPoints = len(x.points)
	}
	e.pointsTotal += int64(len(x.points))
	if f := e.check(x); f != nil {
		e.failure, e.failSched = f, x.choices()
		return
	}
	for i := len(prefix); i < len(x.points); i++ {
		p := x.points[i]
		cost := x.preemptionsBefore(i)
		if p.running >= 0 && p.enabled[0] == p.running {
			cost++ // switching away from a runnable thread is a preemption
		}
		if e.bound >= 0 && cost > e.bound {
			continue
		}
		for alt := 1; alt < len(p.enabled); alt++ {
			next := append(append([]int{}, x.choices()[:i]...), alt)
			e.explore(next)
			if e.failure != nil || e.capped {
				return
			}
		}
	}
}
