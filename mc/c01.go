package main

// C01 — Query results conform to the SQL/JSON path rules in lax and strict mode.

var c01SpecialDocs = []string{
	`"2015-08-02"`, `"12:34:56"`, `"12:34:56+05:30"`, `"2015-08-02T12:34:56"`, `"2015-08-02 12:34:56-04"`, `"2015-08-02T12:34:56.789+00:00"`,
	`["2015-08-02","x"]`, `-1.5`, `2.5`, `0`, `"1"`, `"1.5"`, `"x"`, `"true"`, `"t"`, `"-2"`, `[1,"a",null]`, `{"a":[1,2],"b":{"a":1}}`, `[[1,2],[3]]`,
	`{"a":{"b":1}}`, `[0,1]`, `[[1,2],5,6,7]`, `[[1,2,3],5]`, `[[0],5,6]`, `2147483648`, `1e308`, `[1e308,10]`, `{"a":1e308,"b":-1e308}`, `5e-324`, `9223372036854775807`, `[-9223372036854775808,1]`, `10000000000`, `[1.5,-1]`, `{"a":"2015-08-02","b":"2015-08-03"}`, `[[1],[[2]]]`, `{"a":null,"b":[]}`,
}

// c01SpelledDocs are decoded from their text in both number modes: the same number as integer and as double
// at the ends of the int64 range and above 2^53 (json.Number keeps the two spellings apart; the other documents
// reach json.Number mode through the shortest spelling of their float64 value)
var c01SpelledDocs = []string{
	`[-9223372036854775808,-9223372036854775808.0]`, `[9223372036854775807,9223372036854775808.0]`, `{"a":-9223372036854775808,"b":-9.223372036854775808e18}`,
	`[9007199254740993,9007199254740992.0]`, `[1,1.0,1e0]`, `[9223372036854775807,9223372036854775807.0]`,
}

func c01Docs(k int) []docEntry {
	vals := Docs(k, stdScalars, stdKeys)
	for _, s := range c01SpecialDocs {
		vals = append(vals, mustDoc(s, "float64"))
	}
	// numbers that exist as json.Number only (outside the double range; -0; exponent spellings)
	for _, s := range []string{`1e400`, `-1e400`, `[1,1e400]`, `{"a":-1e400}`, `1e-400`} {
		vals = append(vals, mustDoc(s, "float64"))
	}
	out := makeDocs(vals)
	for _, s := range c01SpelledDocs {
		out = append(out, docEntry{text: s, f: mustDoc(s, "float64"), n: mustDoc(s, "number")})
	}
	return out
}

func c01Cfgs(hasVar, hasDT bool) []sweepCfg {
	var out []sweepCfg
	for _, num := range numModes {
		for _, silent := range []bool{false, true} {
			varsSets := []map[string]string{nil}
			if hasVar {
				varsSets = []map[string]string{{"x": "i:1"}, nil, {"x": `j:{"a":[1,"a"]}`}, {"x": `j:["a",1,[2]]`}}
			}
			for _, vs := range varsSets {
				out = append(out, sweepCfg{Num: num, Silent: silent, Vars: vs})
				if hasDT {
					out = append(out, sweepCfg{Num: num, Silent: silent, Vars: vs, TZ: true}, sweepCfg{Num: num, Silent: silent, Vars: vs, TZ: true, Zone: "+05:30"})
				}
			}
		}
	}
	return out
}

func checkC01(c Case) *Failure {
	f, _ := compareQueryWithRef("C01", c, nil)
	return f
}

func runC01(r *Run) {
	r.Rule("every abstract path with <= N nodes over the full language (7 primaries, 31 accessor/method steps incl. .decimal and the six datetime methods, filters, unary/binary arithmetic, six comparisons, && || ! is unknown exists starts with like_regex, predicates as path items) plus every construct nested directly in filters and subscripts, x {lax,strict} x every JSON document with <= K nodes plus 36 special documents (datetime strings, numeric strings, negative/fractional/large numbers, nesting) and 6 documents holding one number in its integer and its double spelling at 2^53 and the ends of int64 (decoded per number mode); .decimal() with precision/scale outside the domain in every evaluation context (top level, after unwrapping, comparison/arithmetic/exists/connective operands inside filters, subscripts, predicate items) x {float64,json.Number} x {verbose,silent} x {variable bound to a number, unbound, bound to an object, bound to an array} x {WithTZ, context zone} where the path can observe them; oracle: the reference interpreter (items in order, multiset where member order is open; error class); non-trivial = the reference yields items or an error")
	g := newFullGen()
	N, K := 3, 3
	if r.Thorough() {
		N, K = 4, 3
	}
	r.Bound("max_path_nodes", N)
	r.Bound("max_doc_nodes", K)
	es := g.all(N)
	es = append(es, g.constructPairs()...)
	// deeper nesting than the node bound reaches: every condition of the generated pool (nested filters
	// followed by further uses of @, soft and hard failures, all ordered pairs under && and ||) as a filter
	for _, cd := range condPool(8) {
		es = append(es, eRoot(sFilter(cd.e)), eRoot(sAnyArray(), sFilter(cd.e)))
	}
	es = append(es, lastAfterFailingSubscript()...)
	es = append(es, invalidArgumentsEverywhere()...)
	docs := c01Docs(K)
	r.Bound("documents", len(docs))
	groups := map[[2]bool][]*Expr{}
	for _, e := range es {
		k := [2]bool{usesVar(e), usesDT(e)}
		groups[k] = append(groups[k], e)
	}
	total := 0
	for _, hv := range []bool{false, true} {
		for _, hd := range []bool{false, true} {
			paths := bothModes(groups[[2]bool{hv, hd}])
			total += len(paths)
			refSweep(r, "full-language-vs-reference", paths, docs, c01Cfgs(hv, hd))
		}
	}
	r.Bound("paths", total)
}

// invalidArgumentsEverywhere: a method whose arguments are outside their domain (.decimal precision / scale) fails
// with the non-suppressible error wherever it is evaluated: top level, after an unwrap, as operand of comparisons,
// arithmetic, exists and the connectives inside filters, inside subscripts, as a predicate item; verbose and silent.
func invalidArgumentsEverywhere() []*Expr {
	var es []*Expr
	for _, bad := range []*Expr{sDecimal(i64(1001), nil), sDecimal(i64(0), nil), sDecimal(i64(2), i64(1001)), sDecimal(i64(2), i64(-1001))} {
		cur, root, arr := eCur(bad), eRoot(bad), eRoot(sAnyArray(), bad)
		for _, cond := range []*Expr{eCmp(">", cur, eInt(1)), eCmp("==", eInt(1), cur), eExists(cur), eNot(eExists(cur)), eCmp(">", eArith("+", cur, eInt(1)), eInt(0)),
			eCmp(">", eNeg(cur), eInt(0)), eOr(eCmp("==", eCur(), eInt(1)), eCmp(">", cur, eInt(1))), eAnd(eCmp("==", eCur(), eInt(1)), eCmp(">", cur, eInt(1))),
			eCmp(">", root, eInt(1)), eStartsWith(cur, eStr("a"))} {
			es = append(es, eRoot(sFilter(cond)), eRoot(sAnyArray(), sFilter(cond)))
		}
		es = append(es, root, arr, eRoot(sKey("a"), bad), eRoot(sAny(0, -1), bad), eArith("+", root, eInt(1)), eArith("*", eInt(2), arr), eNeg(root),
			eRoot(sIndex(sub1(root))), eRoot(sIndex(subR(eInt(0), root))), eRoot(sAnyArray(), sFilter(eCmp("==", eCur(), eRoot(sIndex(sub1(root)))))),
			eCmp(">", root, eInt(1)), eExists(arr), eOr(eCmp("==", eRoot(), eInt(1)), eCmp(">", root, eInt(1))), eRoot(bad, sMethod("type")), eInt(1).withSteps(bad), eNum(1.5).withSteps(bad, sMethod("string")))
	}
	return es
}

// lastAfterFailingSubscript: `last` (and the following subscripts) evaluated after a nested subscript
// failed inside a construct that swallows the failure: the enclosing array's size is still the one
// `last` refers to. X is a bound that evaluates to 0 after such a failure.
func lastAfterFailingSubscript() []*Expr {
	idx := func(e ...*Expr) *Expr {
		subs := make([]Sub, len(e))
		for i, x := range e {
			subs[i] = sub1(x)
		}
		return sIndex(subs...)
	}
	var inner []*Expr // failing inner subscripts on $[0] (an array of another size than $)
	for _, bad := range []*Expr{eStr("x"), eRoot(), eInt(9), eNull()} {
		inner = append(inner, eRoot(idx(eInt(0)), idx(bad)), eRoot(idx(eInt(0)), sIndex(subR(eInt(0), bad))), eRoot(idx(eInt(0)), idx(eInt(0), bad)))
	}
	inner = append(inner, eRoot(idx(eInt(0)), sIndex(subR(eInt(1), eInt(0)))))
	var xs []*Expr
	for _, in := range inner {
		xs = append(xs,
			eInt(0).withSteps(sFilter(eIsUnknown(eCmp("==", in, eInt(1))))),
			eInt(0).withSteps(sFilter(eOr(eIsUnknown(eExists(in)), eNot(eExists(in))))),
			eInt(0).withSteps(sFilter(eOr(eCmp("==", in, eInt(1)), eCmp("==", eCur(), eInt(0))))))
	}
	var es []*Expr
	// `last` only inside a filter (or exists) that is itself inside the subscript: it denotes the
	// subscripted array, also when an outer subscript has set another size before
	var inF []*Expr
	for _, k := range []int64{0, 1} {
		inF = append(inF, eInt(k).withSteps(sFilter(eCmp("<", eCur(), eLast()))), eInt(k).withSteps(sFilter(eCmp("<=", eCur(), eLast()))), eInt(k).withSteps(sFilter(eCmp(">", eLast(), eInt(0)))),
			eInt(k).withSteps(sFilter(eExists(eLast()))), eRoot(idx(eInt(0)), idx(eInt(0))).withSteps(sFilter(eCmp("<=", eCur(), eLast()))))
	}
	for _, x := range inF {
		es = append(es, eRoot(idx(x)), eRoot(sIndex(subR(eInt(0), x))), eRoot(idx(eInt(0), x)), eRoot(idx(eLast()), idx(x)), eRoot(idx(eInt(0)), idx(x)),
			eRoot(sAnyArray(), sFilter(eExists(eCur(idx(x))))), eRoot(sKey("a"), idx(x)))
	}
	for _, x := range xs {
		es = append(es, eRoot(sIndex(subR(x, eLast()))), eRoot(idx(x, eLast())), eRoot(idx(eLast(), x, eLast())), eRoot(sIndex(subR(x, lastMinus(1)))),
			eRoot(sIndex(subR(x, eLast())), sIndex(sub1(eLast()))), eRoot(sAnyArray(), sFilter(eCmp("==", eCur(), eRoot(sIndex(sub1(x), sub1(eLast())))))))
	}
	return es
}
