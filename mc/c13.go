package main

// C13 — arithmetic is exact or fails loudly. Closed-form oracle with math/big.

import (
	"encoding/json"
	"fmt"
	"math"
	"math/big"
	"strconv"
	"strings"
)

func c13Corpus(thorough bool) []string {
	ints := []int64{0, 1, -1, 2, -2, 3, 7, -7, 10, 2147483647, -2147483648, 2147483648, -2147483649, 4294967296, 3037000500, -3037000500,
		9007199254740991, 9007199254740992, 9007199254740993, -9007199254740993, math.MaxInt64, math.MinInt64, math.MaxInt64 - 1, math.MinInt64 + 1, 4611686018427387904, -4611686018427387904}
	floats := []float64{0.5, 1.5, -2.5, 1e-7, 1e308, -1e308, 5e-324, 1e19, 9223372036854775808, -9223372036854775808, 0.1, 3.0000000000000004, 1e22}
	if thorough {
		ints = append(ints, 5, -5, 100, 65536, -65536, 1000000007, 4611686018427387903, 6074001000, -6074001000)
		floats = append(floats, 2.5, -0.5, 1e-300, 1e300, 123456789.125, 4503599627370496.5, 1.7976931348623157e308)
	}
	var out []string
	for _, i := range ints {
		out = append(out, "i:"+strconv.FormatInt(i, 10), "n:"+strconv.FormatInt(i, 10), "f:"+strconv.FormatFloat(float64(i), 'g', -1, 64))
	}
	for _, f := range floats {
		s := strconv.FormatFloat(f, 'g', -1, 64)
		out = append(out, "f:"+s, "n:"+strconv.FormatFloat(f, 'f', -1, 64))
	}
	out = append(out, "n:1E2", "n:1.50", "n:-0", "n:0.0", "n:1e2", "n:2.5e0", "f:-0")
	// de-duplicate
	seen := map[string]bool{}
	var uniq []string
	for _, s := range out {
		if !seen[s] {
			seen[s] = true
			uniq = append(uniq, s)
		}
	}
	return uniq
}

// tower classifies an operand the way the documented numeric tower does: int64
// when the value is integer-typed (int64, or a json.Number that is an int64
// literal), double otherwise.
func tower(v any) (isInt bool, i int64, f float64, ok bool) {
	switch v := v.(type) {
	case int64:
		return true, v, 0, true
	case float64:
		return false, 0, v, true
	case json.Number:
		if i, err := v.Int64(); err == nil {
			return true, i, 0, true
		}
		f, err := v.Float64()
		if err != nil {
			return false, 0, 0, false
		}
		return false, 0, f, true
	}
	return false, 0, 0, false
}

type c13Expect struct {
	softErr  bool       // must be a suppressible error
	errOK    bool       // a suppressible error is admissible (result does not fit int64)
	exact    []*big.Rat // admissible exact values (integer results)
	floats   []float64  // admissible double results
	wantInt  bool       // the result must be delivered as an integer (int64), not as an equal double
	describe string
}

func c13Binary(op string, a, b any) c13Expect {
	ai, ax, af, ok1 := tower(a)
	bi, bx, bf, ok2 := tower(b)
	if !ok1 || !ok2 {
		return c13Expect{softErr: true, describe: "operand is not a number"}
	}
	toF := func(isInt bool, i int64, f float64) float64 {
		if isInt {
			return float64(i)
		}
		return f
	}
	x, y := toF(ai, ax, af), toF(bi, bx, bf)
	if (op == "/" || op == "%") && y == 0 {
		return c13Expect{softErr: true, describe: "division by zero"}
	}
	ieee := func() (float64, bool) {
		var f float64
		switch op {
		case "+":
			f = x + y
		case "-":
			f = x - y
		case "*":
			f = x * y
		case "/":
			f = x / y
		case "%":
			f = math.Mod(x, y)
		}
		return f, !(math.IsInf(f, 0) || math.IsNaN(f))
	}
	if ai && bi {
		X, Y := big.NewInt(ax), big.NewInt(bx)
		Z := new(big.Int)
		var exp c13Expect
		switch op {
		case "+":
			Z.Add(X, Y)
		case "-":
			Z.Sub(X, Y)
		case "*":
			Z.Mul(X, Y)
		case "%":
			Z.Rem(X, Y)
		case "/":
			rem := new(big.Int)
			Z.QuoRem(X, Y, rem)
			if rem.Sign() != 0 {
				// truncated quotient or the exact quotient (as the nearest double)
				f, _ := ieee()
				exp.floats = append(exp.floats, f)
			}
		}
		if Z.IsInt64() {
			exp.exact = append(exp.exact, new(big.Rat).SetInt(Z))
			exp.describe = "integer result " + Z.String()
			exp.wantInt = op != "/"
			return exp
		}
		f, fin := ieee()
		if !fin {
			return c13Expect{softErr: true, describe: "result out of range"}
		}
		return c13Expect{floats: []float64{f}, errOK: true, describe: "exact result " + Z.String() + " does not fit int64: IEEE double " + strconv.FormatFloat(f, 'g', -1, 64) + " (or an error)"}
	}
	f, fin := ieee()
	if !fin {
		return c13Expect{softErr: true, describe: "IEEE result is not finite"}
	}
	return c13Expect{floats: []float64{f}, describe: "IEEE double " + strconv.FormatFloat(f, 'g', -1, 64)}
}

func c13Unary(op string, a any) c13Expect {
	ai, ax, af, ok := tower(a)
	if !ok {
		return c13Expect{softErr: true, describe: "operand is not a number"}
	}
	if ai {
		z := big.NewInt(ax)
		if op == "-" {
			z.Neg(z)
		}
		if z.IsInt64() {
			return c13Expect{exact: []*big.Rat{new(big.Rat).SetInt(z)}, describe: "integer " + z.String()}
		}
		return c13Expect{floats: []float64{-float64(ax)}, errOK: true, describe: "2^63 as a double (or an error)"}
	}
	if op == "-" {
		af = -af
	}
	return c13Expect{floats: []float64{af}, describe: "double " + strconv.FormatFloat(af, 'g', -1, 64)}
}

func (e c13Expect) admits(o Out) (bool, string) {
	if o.Class == "panic" || o.Class == "invalid" || o.Class == "hard" || o.Class == "other" {
		return false, "error-class-" + o.Class
	}
	if o.Class == "soft" {
		if e.softErr || e.errOK {
			return true, ""
		}
		return false, "spurious-error"
	}
	if e.softErr {
		return false, "missed-error"
	}
	if len(o.Items) != 1 {
		return false, "not-one-item"
	}
	r := o.Items[0]
	switch v := r.(type) {
	case float64:
		if math.IsInf(v, 0) || math.IsNaN(v) {
			return false, "non-finite-result"
		}
	case int64:
	default:
		return false, "result-not-a-number"
	}
	rr, _ := exactRat(r)
	for _, x := range e.exact {
		if rr.Cmp(x) == 0 {
			if f, isF := r.(float64); isF && f == 0 && math.Signbit(f) {
				return false, "negative-zero-for-an-integer-result" // the exact integer result is 0, which has no sign
			}
			if _, isF := r.(float64); isF && e.wantInt {
				return false, "integer-result-delivered-as-a-double" // it prints and serialises differently beyond 2^53
			}
			return true, ""
		}
	}
	for _, f := range e.floats {
		if fr, ok := exactRat(f); ok && rr.Cmp(fr) == 0 {
			return true, ""
		}
	}
	if _, isInt := r.(int64); isInt && len(e.exact) == 0 {
		return false, "wrong-integer"
	}
	return false, "wrong-value"
}

// c13Literal: the spelling of v as a literal of the path language and the value the grammar assigns to
// that spelling (an integer literal is an int64 if its magnitude fits, so -9223372036854775808 is the
// negation of the double 2^63). ok=false for json.Number (no such literal).
func c13Literal(v any) (text string, val any, ok bool) {
	switch x := v.(type) {
	case int64:
		if x == math.MinInt64 {
			return "-9223372036854775808", float64(math.MinInt64), true
		}
		return strconv.FormatInt(x, 10), x, true
	case float64:
		t := strconv.FormatFloat(x, 'g', -1, 64)
		if !strings.ContainsAny(t, ".e") {
			t += ".0"
		}
		return t, x, true
	}
	return "", nil, false
}

func c13Path(c Case) (string, map[string]any, any) {
	a := decodeTagged(c.Extra["a"], "float64")
	var b any
	if c.Extra["b"] != "" {
		b = decodeTagged(c.Extra["b"], "float64")
	}
	op := c.Extra["op"]
	mode := c.Extra["mode"]
	switch c.Extra["delivery"] {
	case "literal", "literal-bare":
		la, _, _ := c13Literal(a)
		wrap := func(t string) string {
			if c.Extra["delivery"] == "literal" && strings.HasPrefix(t, "-") {
				return "(" + t + ")"
			}
			return t
		}
		if b == nil {
			if c.Extra["delivery"] == "literal" {
				return mode + op + "(" + la + ")", nil, nil
			}
			return mode + op + " " + la, nil, nil
		}
		lb, _, _ := c13Literal(b)
		return mode + wrap(la) + " " + op + " " + wrap(lb), nil, nil
	case "vars":
		if b == nil {
			return mode + op + "$a", map[string]any{"a": a}, nil
		}
		return mode + "$a " + op + " $b", map[string]any{"a": a, "b": b}, nil
	case "doc":
		if b == nil {
			return mode + op + "$[0]", nil, []any{a}
		}
		return mode + "$[0] " + op + " $[1]", nil, []any{a, b}
	case "doc-wrapped": // singleton arrays: lax unwraps
		return mode + "$[0] " + op + " $[1]", nil, []any{[]any{a}, []any{b}}
	}
	panic("harness: delivery")
}

func checkC13(c Case) *Failure {
	a := decodeTagged(c.Extra["a"], "float64")
	op := c.Extra["op"]
	var exp c13Expect
	var b any
	if c.Extra["b"] != "" {
		b = decodeTagged(c.Extra["b"], "float64")
	}
	if strings.HasPrefix(c.Extra["delivery"], "literal") {
		var ok1, ok2 bool
		_, a, ok1 = c13Literal(a)
		ok2 = true
		if b != nil {
			_, b, ok2 = c13Literal(b)
		}
		if !ok1 || !ok2 {
			return nil // json.Number has no literal spelling
		}
	}
	if b != nil {
		exp = c13Binary(op, a, b)
	} else {
		exp = c13Unary(op, a)
	}
	if c.Extra["delivery"] == "doc-wrapped" && c.Extra["mode"] != "" {
		exp = c13Expect{softErr: true, describe: "strict mode does not unwrap: operand is an array"}
	}
	text, vars, doc := c13Path(c)
	p, err, pan := parseCached(text)
	if err != nil || pan != "" {
		return &Failure{Sig: "C13/parse", Expected: "parses", Observed: fmt.Sprint(text, err, pan)}
	}
	o := implQuery(p, doc, runCfg{vars: vars})
	// an operation that fails is not an existing item either (Exists shares the arithmetic)
	if e := implExists(p, doc, runCfg{vars: vars}); o.Class == "soft" && e.Class == "ok" && e.Bool {
		return &Failure{Sig: "C13/exists-true-for-failing-operation/" + op, Expected: "Exists not true (Query: " + o.String() + ")", Observed: e.String()}
	}
	ok, why := exp.admits(o)
	if !ok {
		kind := "binary"
		if b == nil {
			kind = "unary"
		}
		ai, _, _, _ := tower(a)
		reprs := c.Extra["a"][:1]
		if b != nil {
			reprs += c.Extra["b"][:1]
		}
		_ = ai
		return &Failure{Sig: fmt.Sprintf("C13/%s/%s/%s/%s", kind, op, why, reprs), Expected: exp.describe, Observed: o.String()}
	}
	return nil
}

func runC13(r *Run) {
	r.Rule("all ordered pairs of a boundary corpus (0, +-1, int32/int64 limits and neighbours, 2^53 neighbours, sqrt(2^63) neighbours, fractions, huge/tiny doubles) in each of int64 / float64 / json.Number representation x {+,-,*,/,%} and both unary operators, delivered as variables, document elements, lax-unwrapped singleton arrays and literals of the path text (parenthesised and bare), both modes; operands that are literals followed by accessor chains (11 chains x 6 literals) on either side of every operator, against the reference; oracle: math/big exact arithmetic (integer-typed operands whose exact result fits int64 => that integer, quotient truncated or exact; otherwise the IEEE double, or a suppressible error where the exact result does not fit; never Inf/NaN, never a different integer); plus the singleton / non-numeric operand rule, and the identities -(-x)=x, x+y=y+x, x*y=y*x on the same corpus; non-trivial = every operand pair (all are distinct)")
	corpus := c13Corpus(r.Thorough())
	r.Bound("corpus_values", len(corpus))
	ops := []string{"+", "-", "*", "/", "%"}
	n := len(corpus) * len(corpus)
	r.ParFor(n, func(i int) {
		a, b := corpus[i/len(corpus)], corpus[i%len(corpus)]
		for _, op := range ops {
			for _, mode := range []string{"", "strict "} {
				for _, del := range []string{"vars", "doc", "doc-wrapped", "literal", "literal-bare"} {
					c := Case{Rule: "binary", Extra: map[string]string{"a": a, "b": b, "op": op, "mode": mode, "delivery": del}}
					r.evals.Add(1)
					r.traces.Add(1)
					r.transitions.Add(1)
					if f := checkC13(c); f != nil {
						c.Path, _, _ = c13Path(c)
						r.Fail(c, f)
					}
				}
			}
			r.Distinct(a + op + b)
		}
		if i%1013 == 0 {
			r.Sample(map[string]string{"a": a, "b": b})
		}
	})
	r.states.Add(int64(n))
	for _, a := range corpus {
		for _, op := range []string{"-", "+"} {
			for _, mode := range []string{"", "strict "} {
				for _, del := range []string{"vars", "doc", "literal", "literal-bare"} {
					c := Case{Rule: "unary", Extra: map[string]string{"a": a, "op": op, "mode": mode, "delivery": del}}
					r.evals.Add(1)
					if f := checkC13(c); f != nil {
						c.Path, _, _ = c13Path(c)
						r.Fail(c, f)
					}
				}
			}
		}
		// -(-x) = x
		c := Case{Rule: "double-negation", Extra: map[string]string{"a": a}}
		r.evals.Add(1)
		if f := c13Law(c); f != nil {
			r.Fail(c, f)
		}
	}
	// commutativity on the recorded corpus
	r.ParFor(n, func(i int) {
		a, b := corpus[i/len(corpus)], corpus[i%len(corpus)]
		for _, op := range []string{"+", "*"} {
			c := Case{Rule: "commutativity", Extra: map[string]string{"a": a, "b": b, "op": op}}
			r.evals.Add(1)
			if f := c13Law(c); f != nil {
				r.Fail(c, f)
			}
		}
	})
	// operands that are literals followed by accessors (the chain is part of the operand), against the reference
	var lps []*Expr
	for _, l := range []*Expr{eInt(2), eInt(-3), eNum(-0.5), eInt(0), eNum(2.5), eStr("a")} {
		for _, ch := range [][]*Expr{{sMethod("abs")}, {sMethod("ceiling")}, {sMethod("floor")}, {sMethod("type")}, {sMethod("size")}, {sMethod("double")}, {sMethod("string")},
			{sFilter(eCmp(">", eCur(), eInt(5)))}, {sFilter(eCmp("<", eCur(), eInt(5)))}, {sIndex(sub1(eInt(0)))}, {sMethod("abs"), sMethod("ceiling")}} {
			o := l.withSteps(ch...)
			lps = append(lps, eNeg(o), ePos(o))
			for _, op := range ops {
				for _, other := range []*Expr{eInt(1), eInt(10), eNum(0.5)} {
					lps = append(lps, eArith(op, o, other), eArith(op, other, o))
				}
				lps = append(lps, eArith(op, o, o))
			}
		}
	}
	// operands selected through a subscript list / range followed by a step that the *last* selected
	// element does not support (the operand still has exactly one numeric item)
	var sps []*Expr
	for _, ix := range []*Expr{sIndex(subR(eInt(0), eInt(1))), sIndex(sub1(eInt(0)), sub1(eInt(1))), sIndex(subR(eInt(0), eLast())), sIndex(sub1(eInt(1)), sub1(eInt(0)))} {
		o := eRoot(ix, sKey("a"))
		sps = append(sps, eNeg(o), ePos(o), eExists(eNeg(o)), eRoot(sFilter(eExists(ePos(eCur(ix, sKey("a")))))))
		for _, op := range ops {
			sps = append(sps, eArith(op, o, eInt(2)), eArith(op, eInt(2), o), eExists(eArith(op, o, eInt(2))))
		}
	}
	sdocs := makeDocs([]any{mustDoc(`[{"a":5},{"b":1}]`, "float64"), mustDoc(`[{"b":1},{"a":5}]`, "float64"), mustDoc(`[{"a":5},1]`, "float64"), mustDoc(`[{"a":5},{"a":"x"}]`, "float64"), mustDoc(`[{"a":5},{"a":7}]`, "float64")})
	r.Bound("subscripted_operand_paths", 2*len(sps))
	refSweep(r, "subscripted-operands", bothModes(sps), sdocs, []sweepCfg{{Num: "float64"}, {Num: "number"}})
	for _, p := range bothModes(sps) {
		for _, d := range sdocs {
			c := Case{Rule: "exists-agrees", Path: p.String(), Doc: d.text, Num: "float64"}
			r.evals.Add(1)
			if f := c13ExistsAgrees(c); f != nil {
				r.Fail(c, f)
			}
		}
	}
	r.Bound("literal_chain_operand_paths", 2*len(lps))
	refSweep(r, "literal-chain-operands", bothModes(lps), makeDocs([]any{nil}), []sweepCfg{{Num: "float64"}})
	// operand sequences: 0 / 2 elements / non-numeric => suppressible error; lax unwrapping of arrays
	seqs := []string{`[]`, `[1,2]`, `"a"`, `null`, `true`, `{}`, `[[1]]`, `["a"]`, `[null]`}
	for _, s := range seqs {
		for _, op := range ops {
			for _, mode := range []string{"", "strict "} {
				for _, side := range []string{"left", "right"} {
					c := Case{Rule: "operand-sequence", Doc: s, Extra: map[string]string{"op": op, "mode": mode, "side": side}}
					r.evals.Add(1)
					if f := c13Seq(c); f != nil {
						r.Fail(c, f)
					}
				}
			}
		}
	}
}

// c13ExistsAgrees: an operation that delivers an item exists; one that fails or delivers nothing does not.
func c13ExistsAgrees(c Case) *Failure {
	p, err, pan := parseCached(c.Path)
	if err != nil || pan != "" {
		return &Failure{Sig: "C13/parse", Expected: "parses", Observed: fmt.Sprint(c.Path, err, pan)}
	}
	doc := mustDoc(c.Doc, c.Num)
	q, e := implQuery(p, doc, runCfg{}), implExists(p, doc, runCfg{})
	if q.Class == "ok" && (e.Class != "ok" || e.Bool != (len(q.Items) > 0)) {
		return &Failure{Sig: "C13/exists-differs-from-query", Expected: fmt.Sprint(len(q.Items) > 0, " (Query: ", q.String(), ")"), Observed: e.String()}
	}
	return nil
}

func c13Seq(c Case) *Failure {
	operand := mustDoc(c.Doc, "float64")
	text := c.Extra["mode"] + "$x " + c.Extra["op"] + " 1"
	if c.Extra["side"] == "right" {
		text = c.Extra["mode"] + "1 " + c.Extra["op"] + " $x"
	}
	p, _, _ := parseCached(text)
	o := implQuery(p, nil, runCfg{vars: map[string]any{"x": operand}})
	if o.Class != "soft" {
		return &Failure{Sig: "C13/operand-sequence/" + o.Class, Expected: "suppressible error (operand " + c.Doc + " is not a single number)", Observed: text + " => " + o.String()}
	}
	// unary: applies to every numeric item, error on a non-numeric one
	return nil
}

func c13Law(c Case) *Failure {
	a := decodeTagged(c.Extra["a"], "float64")
	val := func(text string, vars map[string]any) (string, Out) {
		p, err, pan := parseCached(text)
		if err != nil || pan != "" {
			return "parse-failure", Out{}
		}
		o := implQuery(p, nil, runCfg{vars: vars})
		if o.Class != "ok" {
			return "err:" + o.Class, o
		}
		if len(o.Items) != 1 {
			return "items:" + canonList(o.Items), o
		}
		rr, ok := exactRat(o.Items[0])
		if !ok {
			return "non-finite", o
		}
		return rr.RatString(), o
	}
	if c.Rule == "double-negation" {
		got, o := val("-(-$a)", map[string]any{"a": a})
		want, _ := val("+$a", map[string]any{"a": a})
		if got != want && got != "err:soft" {
			return &Failure{Sig: "C13/law/double-negation/" + c.Extra["a"][:1], Expected: "-(-x) = x = " + want, Observed: o.String()}
		}
		return nil
	}
	b := decodeTagged(c.Extra["b"], "float64")
	op := c.Extra["op"]
	v1, o1 := val("$a "+op+" $b", map[string]any{"a": a, "b": b})
	v2, o2 := val("$b "+op+" $a", map[string]any{"a": a, "b": b})
	if v1 != v2 {
		return &Failure{Sig: "C13/law/commutativity/" + op, Expected: "x" + op + "y = y" + op + "x: " + o1.String(), Observed: o2.String()}
	}
	return nil
}
