package main

// C04 — Parse is total: a path or a parse error, never a panic, for any input.
// (The same per-input oracle also compares accepted trees with refparse: C03.)

import (
	"errors"
	"fmt"
	"os"
	"runtime"
	"strings"
	"sync"
	"sync/atomic"
	"time"

	"github.com/theory/sqljson/path"
	"github.com/theory/sqljson/path/parser"
)

func panicSite(msg string) string {
	switch {
	case strings.Contains(msg, "ParseInt"):
		return "strconv.ParseInt"
	case strings.Contains(msg, "ParseFloat"):
		return "strconv.ParseFloat"
	case strings.Contains(msg, "index out of range"), strings.Contains(msg, "slice bounds"):
		return "index"
	case strings.Contains(msg, "nil pointer"):
		return "nil-pointer"
	case strings.Contains(msg, "regexp"):
		return "regexp"
	}
	return sanitizeSig(msg)
}

// c04Oracle decides one input. treeCheck enables the comparison of accepted
// trees with refparse (C03's clause).
func c04Oracle(id, input string, treeCheck, allDecoders bool) *Failure {
	p, err, pan := implParse(input)
	if pan != "" {
		return &Failure{Sig: id + "/parse-panic/" + panicSite(pan), Expected: "a path or an error", Observed: "panic: " + pan}
	}
	if (p == nil) == (err == nil) {
		return &Failure{Sig: id + "/both-or-neither", Expected: "exactly one of (path, error)", Observed: fmt.Sprintf("path=%v err=%v", p != nil, err)}
	}
	if err != nil && (!errors.Is(err, path.ErrPath) || !errors.Is(err, parser.ErrParse)) {
		return &Failure{Sig: id + "/error-chain", Expected: "wraps path.ErrPath and parser.ErrParse", Observed: err.Error()}
	}
	// The other entry points all delegate to the same parser; they are exercised on every accepted
	// input and on a fixed 1-in-16 index subset of the rejected ones (all of them for small enumerations).
	if err != nil && !allDecoders {
		return c04RefCompare(id, input, p, err, treeCheck)
	}
	// MustParse panics exactly when Parse errs
	mustPanicked := func() (pn bool) {
		defer func() {
			if recover() != nil {
				pn = true
			}
		}()
		_ = path.MustParse(input)
		return false
	}()
	if mustPanicked != (err != nil) {
		return &Failure{Sig: id + "/mustparse-disagrees", Expected: fmt.Sprintf("MustParse panics iff Parse errs (%v)", err != nil), Observed: fmt.Sprint("panicked=", mustPanicked)}
	}
	// Scan / UnmarshalText / UnmarshalBinary report the same failures wrapped in ErrScan
	type dec struct {
		name string
		f    func(*path.Path) error
	}
	for _, d := range []dec{
		{"Scan(string)", func(q *path.Path) error { return q.Scan(input) }},
		{"Scan([]byte)", func(q *path.Path) error { return q.Scan([]byte(input)) }},
		{"UnmarshalText", func(q *path.Path) error { return q.UnmarshalText([]byte(input)) }},
		{"UnmarshalBinary", func(q *path.Path) error { return q.UnmarshalBinary([]byte(input)) }},
	} {
		var q path.Path
		var derr error
		var dpan string
		func() {
			defer func() {
				if r := recover(); r != nil {
					dpan = fmt.Sprint(r)
				}
			}()
			derr = d.f(&q)
		}()
		if dpan != "" {
			return &Failure{Sig: id + "/decoder-panic/" + d.name + "/" + panicSite(dpan), Expected: "an error", Observed: "panic: " + dpan}
		}
		if input == "" && strings.HasPrefix(d.name, "Scan") {
			if derr != nil {
				return &Failure{Sig: id + "/scan-empty", Expected: "nil (documented)", Observed: derr.Error()}
			}
			continue
		}
		if (derr != nil) != (err != nil) {
			return &Failure{Sig: id + "/decoder-accepts-differently/" + d.name, Expected: fmt.Sprint("Parse error: ", err), Observed: fmt.Sprint(d.name, " error: ", derr)}
		}
		if derr != nil && (!errors.Is(derr, path.ErrScan) || !errors.Is(derr, parser.ErrParse)) {
			return &Failure{Sig: id + "/decoder-error-chain/" + d.name, Expected: "wraps path.ErrScan and parser.ErrParse", Observed: derr.Error()}
		}
	}
	return c04RefCompare(id, input, p, err, treeCheck)
}

func c04RefCompare(id, input string, p *path.Path, err error, treeCheck bool) *Failure {
	rp, rerr := refParse(input)
	if errors.Is(rerr, errDecline) {
		return nil
	}
	if err != nil {
		if rerr == nil {
			return &Failure{Sig: id + "/rejected-valid/" + sanitizeSig(stripPos(err.Error())), Expected: "parses (documented syntax): " + pathKey(rp), Observed: err.Error()}
		}
		return nil
	}
	// accepted by the implementation
	ap, cerr := astToPath(p)
	if cerr != nil {
		return &Failure{Sig: id + "/accepted-tree-unusable/" + sanitizeSig(cerr.Error()), Expected: "a well-formed tree (every like_regex compiles)", Observed: cerr.Error()}
	}
	if rerr != nil {
		return &Failure{Sig: id + "/accepted-forbidden/" + sanitizeSig(rerr.Error()), Expected: "parse error: " + rerr.Error(), Observed: "parsed as " + pathKey(ap)}
	}
	if treeCheck {
		if got, want := pathKey(ap), pathKey(rp); got != want {
			return &Failure{Sig: id + "/tree-differs", Expected: want, Observed: got}
		}
		if want := rp.E.K.isPredicate() && len(rp.E.Steps) == 0; p.IsPredicate() != want {
			return &Failure{Sig: id + "/ispredicate", Expected: fmt.Sprint("IsPredicate = ", want), Observed: fmt.Sprint(p.IsPredicate())}
		}
		wantOp := "@?"
		if p.IsPredicate() {
			wantOp = "@@"
		}
		if p.PgIndexOperator() != wantOp {
			return &Failure{Sig: id + "/pgindexoperator", Expected: wantOp, Observed: p.PgIndexOperator()}
		}
	}
	return nil
}

func stripPos(msg string) string {
	if i := strings.LastIndex(msg, " at "); i > 0 {
		return msg[:i]
	}
	return msg
}

func checkC04(c Case) *Failure { return c04Oracle("C04", c.Extra["input"], false, true) }

// ---- enumeration with a hang watchdog ----

type strEnum struct {
	name  string
	count int
	at    func(i int) string
}

var c04Alphabet = []string{"0", "1", "7", "8", "9", "a", "b", "e", "f", "o", "x", "E", "X", "_", ".", "+", "-", "*", "/", "%", `"`, `\`, "$", "@",
	"(", ")", "[", "]", "{", "}", ",", "?", "!", "=", "<", ">", "&", "|", " ", "\n", "u", "n", "t", "l", "~", "é", "\U0001F600", "\x00", "\xff"}

func allStrings(name string, alphabet []string, maxLen int) strEnum {
	n := 0
	pow := 1
	sizes := []int{}
	for l := 0; l <= maxLen; l++ {
		sizes = append(sizes, pow)
		n += pow
		pow *= len(alphabet)
	}
	return strEnum{name: name, count: n, at: func(i int) string {
		l := 0
		for i >= sizes[l] {
			i -= sizes[l]
			l++
		}
		var b strings.Builder
		for k := 0; k < l; k++ {
			b.WriteString(alphabet[i%len(alphabet)])
			i /= len(alphabet)
		}
		return b.String()
	}}
}

func listEnum(name string, items []string) strEnum {
	return strEnum{name: name, count: len(items), at: func(i int) string { return items[i] }}
}

var c04Lexemes = []string{"$", "@", "last", "strict", "lax", "true", "false", "null", "is", "unknown", "exists", "to", "starts", "with", "like_regex", "flag",
	".abs()", ".size()", ".type()", ".floor()", ".double()", ".ceiling()", ".keyvalue()", ".bigint()", ".boolean()", ".integer()", ".number()", ".string()",
	".decimal(", ".datetime(", ".date()", ".time(", ".time_tz()", ".timestamp()", ".timestamp_tz(",
	"==", "!=", "<>", "<", "<=", ">", ">=", "&&", "||", "!", "+", "-", "*", "/", "%", "(", ")", "[", "]", "{", "}", ",", ".", "?", "**", ".*", "[*]",
	"1", "1.5", `"a"`, "$x", "a", ".a", " ", "?(", "0x1F", "1e3"}

var c04Seeds = []string{
	`$`, `$.a`, `$.a.b`, `$."a b"`, `$.*`, `$[*]`, `$[0]`, `$[last]`, `$[0 to 1]`, `$[0, 1 to last]`, `$[last - 1]`, `$.**`, `$.**{2}`, `$.**{1 to 3}`, `$.**{last}`, `$.**{2 to last}`,
	`strict $.a`, `lax $.a`, `$.a ? (@ > 1)`, `$[*] ? (@.a == 1 && @.b != 2)`, `$ ? (@.a > 1 || !(@.b < 2))`, `$ ? (exists(@.a))`, `$ ? ((@.a == 1) is unknown)`,
	`$ ? (@ starts with "a")`, `$ ? (@ starts with $x)`, `$ ? (@ like_regex "^a")`, `$ ? (@ like_regex "a" flag "i")`, `$.a + 1`, `$.a - 1`, `$.a * 2`, `$.a / 2`, `$.a % 2`,
	`-$.a`, `+$.a`, `-1`, `(1 + 2) * 3`, `1 + 2 * 3`, `(1 + 2).abs()`, `$.a.size()`, `$.a.type()`, `$.a.double()`, `$.a.number()`, `$.a.integer()`, `$.a.bigint()`, `$.a.boolean()`,
	`$.a.string()`, `$.a.abs()`, `$.a.floor()`, `$.a.ceiling()`, `$.a.keyvalue()`, `$.a.decimal()`, `$.a.decimal(5)`, `$.a.decimal(5, 2)`, `$.a.decimal(5, -2)`,
	`$.a.datetime()`, `$.a.datetime("HH24")`, `$.a.date()`, `$.a.time()`, `$.a.time(3)`, `$.a.time_tz()`, `$.a.timestamp()`, `$.a.timestamp_tz(6)`,
	`$x`, `$"x y"`, `$x.a`, `"a"`, `"a".type()`, `true`, `false`, `null`, `null.type()`, `1`, `1.5`, `.5`, `5.`, `1e3`, `1E-3`, `0x1F`, `0o17`, `0b101`, `1_000`, `0x1_F`,
	`$.a == 1`, `$.a != 1`, `$.a <> 1`, `$.a < 1`, `$.a <= 1`, `$.a > 1`, `$.a >= 1`, `exists($.a)`, `!exists($.a)`, `($.a == 1) is unknown`, `($.a == 1) && ($.b == 2)`,
	`($.a == 1).type()`, `$.a ? (@ == 1).b`, `$ /* c */ .a`, `$.a/**/.b`, `$ . a`, "$\n.a", `$."a"`, `$."\x61"`, `$."\u{61}"`, `$."😀"`, `$.ab`, `$.ab`,
	`$.true`, `$.null`, `$.last`, `$.exists`, `$.like_regex`, `$.abs`, `$."$"`, `$[$.a]`, `$[$[0]]`, `$[1.5]`, `$[-1]`, `$ ? (@[last] == 1)`, `$[*] ? (@ ? (@ > 1) == 2)`,
	`"\b\f\n\r\t\v\\\"\/"`, `$ ? (@ like_regex "a.c" flag "ismq")`, `$ ? (@ like_regex "[ab]+")`, `$.a[*].b[0].c`, `$.a.**.b`, `9223372036854775807`, `-9223372036854775807`,
}

func c04Edits(seeds []string, thorough bool) strEnum {
	// every single-byte substitution / insertion (all 256 byte values) and deletion at every offset
	type span struct{ seed, off int }
	var spans []span
	for si, s := range seeds {
		for off := 0; off <= len(s); off++ {
			spans = append(spans, span{si, off})
		}
	}
	per := 256 + 256 + 1
	return strEnum{name: "single-edits", count: len(spans) * per, at: func(i int) string {
		sp := spans[i/per]
		k := i % per
		s := seeds[sp.seed]
		switch {
		case k < 256: // substitute
			if sp.off >= len(s) {
				return s + string([]byte{byte(k)})
			}
			return s[:sp.off] + string([]byte{byte(k)}) + s[sp.off+1:]
		case k < 512: // insert
			return s[:sp.off] + string([]byte{byte(k - 256)}) + s[sp.off:]
		default: // delete
			if sp.off >= len(s) {
				return s
			}
			return s[:sp.off] + s[sp.off+1:]
		}
	}}
}

func c04NearMisses(thorough bool) []strEnum {
	var out []strEnum
	// numeric-looking strings in every numeric position
	numAlpha := []string{"0", "1", "9", "_", ".", "e", "E", "+", "-", "x", "o", "b", "a", "f"}
	L := 5
	if thorough {
		L = 6
	}
	nums := allStrings("numeric", numAlpha, L)
	ctxs := []string{"%s", "$[%s]", "%s + 1", "-%s", "$.a == %s", "$.**{%s}", "$.a.decimal(%s)"}
	out = append(out, strEnum{name: "numeric-looking", count: nums.count * len(ctxs), at: func(i int) string {
		return strings.Replace(ctxs[i%len(ctxs)], "%s", nums.at(i/len(ctxs)), 1)
	}})
	// backslash tails
	escAlpha := []string{"0", "1", "8", "9", "a", "d", "D", "f", "F", "c", "{", "}", "u", "x", `\`, `"`}
	EL := 4
	if thorough {
		EL = 5
	}
	tails := allStrings("escape", escAlpha, EL)
	ectx := []string{`"\%s"`, `$.\%s`, `$"\%s"`, `$.a\%s`, `"\ud83d\%s"`}
	out = append(out, strEnum{name: "escape-tails", count: tails.count * len(ectx), at: func(i int) string {
		return strings.Replace(ectx[i%len(ectx)], "%s", tails.at(i/len(ectx)), 1)
	}})
	// prefixes (unterminated strings, comments, brackets) of every seed
	var cuts []string
	for _, s := range c04Seeds {
		for i := 0; i <= len(s); i++ {
			cuts = append(cuts, s[:i], s[:i]+`"`, s[:i]+"/*", s[:i]+`\`)
		}
	}
	out = append(out, listEnum("prefixes", cuts))
	// invalid UTF-8: every two-byte sequence of high bytes in string, key, variable and bare positions
	uctx := []string{`"%s"`, `$.%s`, `$%s`, `%s`, `$."%s"`, `/*%s*/$`}
	out = append(out, strEnum{name: "two-high-bytes", count: 128 * 128 * len(uctx), at: func(i int) string {
		c := i % len(uctx)
		i /= len(uctx)
		return strings.Replace(uctx[c], "%s", string([]byte{byte(0x80 + i/128), byte(0x80 + i%128)}), 1)
	}})
	// characters that are no token: every rune whose code point coincides with one of the parser's
	// internal token numbers (goyacc numbers its tokens from U+E000), control characters, and other
	// non-identifier runes, in every token position
	var odd []rune
	for r := rune(1); r < 0x20; r++ {
		odd = append(odd, r)
	}
	for r := rune(0xE000); r < 0xE100; r++ {
		odd = append(odd, r)
	}
	odd = append(odd, 0x7f, 0x80, 0xA0, 0x100, 0x2028, 0xD7FF, 0xF8FF, 0xFFFD, 0xFFFE, 0xFFFF, 0x10000, 0xF0000, 0x10FFFF)
	octx := []string{"%s", "$[1 %s 2]", "$.a.%s()", "$ ? (@ %s 1)", "$.**{%s}", "$ %s", "%s 1", "$.%s", "%s $", "$.a %s \"a\"", "$ ? (%s(@))", "$[%s]", "1 %s 2", "$ ? (@ like_regex \"a\" %s \"i\")"}
	out = append(out, strEnum{name: "non-token-runes", count: len(odd) * len(octx), at: func(i int) string {
		return strings.Replace(octx[i%len(octx)], "%s", string(odd[i/len(octx)]), 1)
	}})
	// like_regex flags and patterns
	flagAlpha := []string{"i", "s", "m", "x", "q", "a"}
	flags := allStrings("flags", flagAlpha, 3)
	patAlpha := []string{"(", ")", "[", "]", "{", "}", "*", "+", "?", `\\`, "|", "^", "$", ".", "a", "1", ",", "-"}
	PL := 3
	if thorough {
		PL = 4
	}
	pats := allStrings("patterns", patAlpha, PL)
	flagSubsets := []string{"", "i", "s", "m", "q", "x", "iq", "xq", "ism", "ismq", "ismxq"}
	out = append(out, strEnum{name: "regex-flags", count: flags.count, at: func(i int) string {
		return `$ ? (@ like_regex "a" flag "` + flags.at(i) + `")`
	}})
	out = append(out, strEnum{name: "regex-patterns", count: pats.count * len(flagSubsets), at: func(i int) string {
		f := flagSubsets[i%len(flagSubsets)]
		s := `$ ? (@ like_regex "` + pats.at(i/len(flagSubsets)) + `"`
		if f != "" {
			s += ` flag "` + f + `"`
		}
		return s + ")"
	}})
	// constructs the grammar actions reject (after the tokens were accepted), in every syntactic
	// position and before every kind of follower: the parser keeps going after recording the error
	badCores := []string{`$ like_regex "("`, `$ like_regex "a" flag "x"`, `$ like_regex "a" flag "z"`, `$ like_regex "[" flag "i"`, `$ like_regex "a{2,1}"`, `$ like_regex "\\"`,
		`@ like_regex ")" flag "q"`, `$.a like_regex "(?<n"`, `$ like_regex "(" flag "iq"`}
	coreWraps := []string{"%s", "(%s)", "!(%s)", "(%s) is unknown", "exists($ ? (%s))", "$ ? (%s)", "$[*] ? (%s)", "(%s) && (1 == 1)", "(1 == 1) || (%s)", "$[($ ? (%s)).a]"}
	folls := []string{"", "[*]", "[0]", ".*", ".**", ".a", ".type()", " ? (@ == 1)", ".decimal(1,2,3)", " && $", "[last]", ")", "]", " is unknown", " + 1", " == 1"}
	var broken []string
	for _, core := range badCores {
		for _, w := range coreWraps {
			for _, f := range folls {
				broken = append(broken, strings.Replace(w, "%s", core, 1)+f, "("+strings.Replace(w, "%s", core, 1)+")"+f)
			}
		}
	}
	for _, d := range []string{"$.a.decimal(1,2,3)", "$.decimal(1,2,3,4)", "$.a.decimal(1,)", "$.a.decimal(,1)", "$.a.decimal(1 2)", "$.a.decimal(1.5)", "$.a.decimal($x)", "$.a.time(1,2)", "$.a.time(-1)",
		"$.a.date(1)", "$.a.datetime(1)", `$.a.time("x")`, "$.a.abs(1)", "$.a.type(1)", "$.**{1,2}", "$.**{-1}", "$.**{1 to}", "$.**{to 1}", "$.**{1.5}", "$.**{$x}"} {
		for _, f := range folls {
			broken = append(broken, d+f, "("+d+")"+f, "$ ? (exists("+d+f+"))", "strict "+d+f)
		}
	}
	out = append(out, listEnum("action-errors-with-followers", broken))
	// two (and three) unbuildable items in one input, each in every position relative to the other: an
	// accessor / operand / argument of the first contains the second (stand-in nodes must not be shared)
	unb := []string{"1e400", ".1e999", "1" + strings.Repeat("0", 400), `($ like_regex "(")`, `($ like_regex "a" flag "z")`, "$.a.decimal(1,2,3)", "$.**{-1}", "1e400.abs()", "(-1e400)"}
	shapes := []string{"%s[%s]", "%s ? (@ > %s)", "%s ? (@ == %s).a", "%s + %s", "%s == %s", "%s[%s to %s]", "%s[0, %s]", "%s.a[%s]", "$[%s] ? (@ == %s)", "exists(%s ? (%s == 1))", "(%s) && (%s == 1)",
		"-%s[%s]", "%s ? (%s like_regex \"a\")", "$ ? (@ == %s && @ < %s)", "%s ? (@ > %s) ? (@ < %s)", "$.a.decimal(%s, %s)", "$[%s, %s, %s]"}
	var multi []string
	for _, a := range unb {
		for _, b := range unb {
			for _, sh := range shapes {
				t := strings.Replace(strings.Replace(sh, "%s", a, 1), "%s", b, 1)
				t = strings.ReplaceAll(t, "%s", a)
				multi = append(multi, t, "strict "+t, "("+t+")")
			}
		}
	}
	out = append(out, listEnum("several-unbuildable-items", multi))
	// numeric literals at and beyond the int64 / float64 limits, with signs and parentheses
	lits := []string{"9223372036854775807", "9223372036854775808", "9223372036854775809", "18446744073709551616", "99999999999999999999999999",
		"0x7FFFFFFFFFFFFFFF", "0x8000000000000000", "0xFFFFFFFFFFFFFFFFFF", "0o777777777777777777777", "0o1000000000000000000000", "0b1" + strings.Repeat("0", 63), "0b1" + strings.Repeat("0", 64),
		"1e308", "1.7976931348623157e308", "1.7976931348623159e308", "1e309", "1e400", "1e-400", "5e-324", "2e-324", "1e99999", "0e99999", ".1e400", "123456789012345678901234567890.5",
		"1", "1.5", "0", "0.0", "1e0"}
	wraps := []string{"%s", "-%s", "+%s", "- %s", "--%s", "- -%s", "-(-%s)", "-(%s)", "(-%s)", "-(+%s)", "+-%s", "-+%s", "(%s)", "-(-(-%s))", "$[%s]", "$[-%s]", "$.a == -%s", "$.a.decimal(%s)", "$.a.decimal(-%s, +%s)", "$.a.time(%s)", "$.**{%s}", "$.**{%s to %s}", "1 - -%s", "-%s.abs()", "(-%s).abs()", "-(%s).abs()"}
	var litCases []string
	for _, l := range lits {
		for _, w := range wraps {
			litCases = append(litCases, strings.ReplaceAll(w, "%s", l))
		}
	}
	out = append(out, listEnum("limit-literals", litCases))
	// @ at depth 0 and last outside subscripts, at every position of every seed
	var placed []string
	for _, s := range c04Seeds {
		for i := 0; i <= len(s); i++ {
			placed = append(placed, s[:i]+"@"+s[i:], s[:i]+" last "+s[i:], s[:i]+"@.a"+s[i:], s[:i]+"[last]"+s[i:], s[:i]+" ? (last == 1)"+s[i:],
				s[:i]+"[@]"+s[i:], s[:i]+"[@.a]"+s[i:], s[:i]+".b[@.c to 1]"+s[i:], s[:i]+" ? ($[@] == 1)"+s[i:], s[:i]+" ? (@ == 1)[@]"+s[i:], s[:i]+"[0 ? (@ > last)]"+s[i:])
		}
	}
	out = append(out, listEnum("current-and-last-placement", placed))
	return out
}

type hangWatch struct {
	cur  []atomic.Pointer[string]
	tick []atomic.Int64 // inputs finished by the worker
}

func runStringSweep(r *Run, id string, enums []strEnum, treeCheck bool) {
	workers := runtime.GOMAXPROCS(0)
	hw := &hangWatch{cur: make([]atomic.Pointer[string], workers), tick: make([]atomic.Int64, workers)}
	stop := make(chan struct{})
	go func() { // watchdog: a single Parse that has not returned after 60 s is a hang
		t := time.NewTicker(5 * time.Second)
		defer t.Stop()
		last := make([]int64, workers)
		stuck := make([]int, workers)
		for {
			select {
			case <-stop:
				return
			case <-t.C:
				for w := range hw.cur {
					n := hw.tick[w].Load()
					s := hw.cur[w].Load()
					if s == nil || n != last[w] {
						last[w], stuck[w] = n, 0
						continue
					}
					stuck[w]++
					if stuck[w] >= 12 { // the same input for 60 s
						c := Case{Rule: "hang", Extra: map[string]string{"input": *s}}
						r.Fail(c, &Failure{Sig: id + "/hang", Expected: "Parse returns", Observed: "no return after 60 s"})
						os.Exit(r.Finish())
					}
				}
			}
		}
	}()
	defer close(stop)
	accepted := map[string]int64{}
	for _, en := range enums {
		var acc, rej atomic.Int64
		var next atomic.Int64
		const chunk = 4096
		var wg sync.WaitGroup
		capped := atomic.Bool{}
		for w := 0; w < workers; w++ {
			wg.Add(1)
			go func(w int) {
				defer wg.Done()
				for {
					lo := int(next.Add(chunk) - chunk)
					if lo >= en.count {
						return
					}
					if r.Expired() {
						capped.Store(true)
						return
					}
					hi := lo + chunk
					if hi > en.count {
						hi = en.count
					}
					for i := lo; i < hi; i++ {
						in := en.at(i)
						hw.cur[w].Store(&in)
						noteSlot(w, in)
						f := c04Oracle(id, in, treeCheck, i%16 == 0 || en.count <= 300000)
						hw.tick[w].Add(1)
						r.evals.Add(1)
						if f != nil {
							r.Fail(Case{Rule: en.name, Extra: map[string]string{"input": in}}, f)
							continue
						}
						if p, _, _ := implParse(in); p != nil {
							if n := acc.Add(1); n%5000 == 1 {
								r.Sample(map[string]string{"enumeration": en.name, "input": in, "canonical": p.String()})
							}
							r.Distinct(in)
						} else {
							rej.Add(1)
						}
					}
				}
			}(w)
		}
		wg.Wait()
		if capped.Load() {
			r.Cap("internal deadline inside enumeration " + en.name + " (earlier enumerations are complete)")
		}
		r.mu.Lock()
		r.outcomes[en.name+": accepted"] += acc.Load()
		r.outcomes[en.name+": rejected"] += rej.Load()
		accepted[en.name] = acc.Load()
		r.bounds["enumeration "+en.name] = en.count
		r.mu.Unlock()
		r.states.Add(acc.Load())
		r.transitions.Add(int64(en.count))
		r.traces.Add(acc.Load())
	}
}

func c04Enums(r *Run) []strEnum {
	L, M := 4, 3
	if r.Thorough() {
		L, M = 5, 4
	}
	r.Bound("max_string_length", L)
	r.Bound("max_lexeme_sequence", M)
	enums := []strEnum{allStrings("all-strings", c04Alphabet, L), allStrings("lexeme-sequences", withSpaces(c04Lexemes), M), c04Edits(c04Seeds, r.Thorough())}
	enums = append(enums, c04NearMisses(r.Thorough())...)
	return enums
}

func withSpaces(lex []string) []string {
	out := make([]string, len(lex))
	for i, l := range lex {
		out[i] = l + " "
	}
	return out
}

func runC04(r *Run) {
	r.Rule("every string of length <= L over a 49-symbol alphabet chosen to hit each side of every lexer comparison; every sequence of <= M lexemes over a 72-lexeme alphabet; every single-byte substitution/insertion (all 256 values) and deletion at every offset of 130 seed paths covering every production; every numeric-looking string of length <= 5/6 in 7 numeric positions; every 1-4/5 character backslash tail in 5 positions; every prefix of every seed (unterminated strings, comments, brackets); every pair of high bytes (invalid UTF-8) in 6 positions; every flag string of length <= 3 and every regex pattern of length <= 3/4 under 11 flag sets; integer/float literals at and beyond the int64/float64 limits under 26 sign/parenthesis wrappings; @ and last inserted at every position of every seed. Oracle per input: no panic, exactly one of (path, error), error chain, MustParse, Scan/UnmarshalText/UnmarshalBinary, accept/reject agreement with an independent recursive-descent recogniser (refparse), every accepted like_regex compiles; a single Parse not returning within 60 s is a hang. non-trivial = inputs the implementation accepts (distinct)")
	r.Assume("refparse (mc/refparse.go) is the model of the documented syntax; inputs it declines (form feed / vertical tab as white space, keywords spelled with escapes, code points above U+10FFFF, numeric literals beyond the double range) are not judged for accept/reject")
	runStringSweep(r, "C04", c04Enums(r), false)
}
