package main

// Converts the implementation's tree (through exported accessors only) to the
// harness's abstract Path, and renders abstract paths in a normal form for
// comparison (C02, C03, C04).

import (
	"fmt"
	"math"
	"strconv"
	"strings"

	"github.com/theory/sqljson/path/ast"
)

var methodByName = map[ast.MethodName]string{ast.MethodAbs: "abs", ast.MethodSize: "size", ast.MethodType: "type", ast.MethodFloor: "floor",
	ast.MethodCeiling: "ceiling", ast.MethodDouble: "double", ast.MethodKeyValue: "keyvalue", ast.MethodBigInt: "bigint", ast.MethodBoolean: "boolean",
	ast.MethodInteger: "integer", ast.MethodNumber: "number", ast.MethodString: "string"}

var binOpText = map[ast.BinaryOperator]string{ast.BinaryEqual: "==", ast.BinaryNotEqual: "!=", ast.BinaryLess: "<", ast.BinaryGreater: ">",
	ast.BinaryLessOrEqual: "<=", ast.BinaryGreaterOrEqual: ">=", ast.BinaryAdd: "+", ast.BinarySub: "-", ast.BinaryMul: "*", ast.BinaryDiv: "/", ast.BinaryMod: "%"}

var dtOpText = map[ast.UnaryOperator]string{ast.UnaryDateTime: "datetime", ast.UnaryDate: "date", ast.UnaryTime: "time", ast.UnaryTimeTZ: "time_tz",
	ast.UnaryTimestamp: "timestamp", ast.UnaryTimestampTZ: "timestamp_tz"}

func astToPath(p *implPath) (out Path, err error) {
	defer func() {
		if r := recover(); r != nil {
			err = fmt.Errorf("cannot convert tree: %v", r)
		}
	}()
	out.Strict = !p.IsLax()
	out.E = nodeToExpr(p.Root())
	return out, nil
}

func anyBound(u uint32) int {
	if u == math.MaxUint32 {
		return -1
	}
	return int(u)
}

// nodeToExpr converts a node and its chain: the node becomes the head (or the
// first step) and the following nodes become steps.
func nodeToExpr(n ast.Node) *Expr {
	head := oneNode(n)
	for next := n.Next(); next != nil && !isNilNode(next); next = next.Next() {
		head.Steps = append(head.Steps, oneNode(next))
	}
	return head
}

func intArg(n ast.Node) *int64 {
	if n == nil || isNilNode(n) {
		return nil
	}
	in, ok := n.(*ast.IntegerNode)
	if !ok {
		panic(fmt.Sprintf("integer argument expected, got %T", n))
	}
	v := in.Int()
	return &v
}

func oneNode(n ast.Node) *Expr {
	switch x := n.(type) {
	case *ast.ConstNode:
		switch x.Const() {
		case ast.ConstRoot:
			return eRoot()
		case ast.ConstCurrent:
			return eCur()
		case ast.ConstLast:
			return eLast()
		case ast.ConstAnyArray:
			return sAnyArray()
		case ast.ConstAnyKey:
			return sAnyKey()
		case ast.ConstTrue:
			return eTrue()
		case ast.ConstFalse:
			return eFalse()
		case ast.ConstNull:
			return eNull()
		}
	case *ast.MethodNode:
		return sMethod(methodByName[x.Name()])
	case *ast.StringNode:
		return eStr(x.Text())
	case *ast.VariableNode:
		return eVar(x.Text())
	case *ast.KeyNode:
		return sKey(x.Text())
	case *ast.NumericNode:
		return eNum(x.Float())
	case *ast.IntegerNode:
		return eInt(x.Int())
	case *ast.AnyNode:
		return sAny(anyBound(x.First()), anyBound(x.Last()))
	case *ast.BinaryNode:
		switch x.Operator() {
		case ast.BinaryAnd:
			return eAnd(nodeToExpr(x.Left()), nodeToExpr(x.Right()))
		case ast.BinaryOr:
			return eOr(nodeToExpr(x.Left()), nodeToExpr(x.Right()))
		case ast.BinaryStartsWith:
			return eStartsWith(nodeToExpr(x.Left()), nodeToExpr(x.Right()))
		case ast.BinaryDecimal:
			return sDecimal(intArg(x.Left()), intArg(x.Right()))
		case ast.BinarySubscript:
			panic("subscript outside an array accessor")
		case ast.BinaryEqual, ast.BinaryNotEqual, ast.BinaryLess, ast.BinaryGreater, ast.BinaryLessOrEqual, ast.BinaryGreaterOrEqual:
			return eCmp(binOpText[x.Operator()], nodeToExpr(x.Left()), nodeToExpr(x.Right()))
		default:
			return eArith(binOpText[x.Operator()], nodeToExpr(x.Left()), nodeToExpr(x.Right()))
		}
	case *ast.UnaryNode:
		switch x.Operator() {
		case ast.UnaryExists:
			return eExists(nodeToExpr(x.Operand()))
		case ast.UnaryNot:
			return eNot(nodeToExpr(x.Operand()))
		case ast.UnaryIsUnknown:
			return eIsUnknown(nodeToExpr(x.Operand()))
		case ast.UnaryPlus:
			return ePos(nodeToExpr(x.Operand()))
		case ast.UnaryMinus:
			return eNeg(nodeToExpr(x.Operand()))
		case ast.UnaryFilter:
			return sFilter(nodeToExpr(x.Operand()))
		default:
			s := &Expr{K: KDT, S: dtOpText[x.Operator()]}
			if op := x.Operand(); op != nil && !isNilNode(op) {
				switch a := op.(type) {
				case *ast.StringNode:
					v := a.Text()
					s.T = &v
				case *ast.IntegerNode:
					v := a.Int()
					s.P = &v
				default:
					panic(fmt.Sprintf("datetime argument %T", op))
				}
			}
			return s
		}
	case *ast.RegexNode:
		return &Expr{K: KLikeRegex, A: nodeToExpr(x.Operand()), S: x.Regexp().String(), Flags: "go"}
	case *ast.ArrayIndexNode:
		var subs []Sub
		for _, s := range x.Subscripts() {
			b, ok := s.(*ast.BinaryNode)
			if !ok || b.Operator() != ast.BinarySubscript {
				panic("subscript is not a BinarySubscript node")
			}
			sub := Sub{From: nodeToExpr(b.Left())}
			if r := b.Right(); r != nil && !isNilNode(r) {
				sub.To = nodeToExpr(r)
			}
			subs = append(subs, sub)
		}
		return sIndex(subs...)
	}
	panic(fmt.Sprintf("unknown node %T", n))
}

// exprKey renders an abstract path in a normal form: signs folded into numeric
// literals, regex as the translated Go source, numbers by value.
func pathKey(p Path) string {
	var b strings.Builder
	if p.Strict {
		b.WriteString("strict ")
	}
	writeKey(&b, foldSigns(p.E))
	return b.String()
}

// foldSigns rewrites, bottom-up, a unary sign applied to a bare numeric literal
// into the signed literal (the grammar folds them: -(-1) is the literal 1).
func foldSigns(e *Expr) *Expr {
	if e == nil {
		return nil
	}
	c := *e
	c.A, c.B = foldSigns(e.A), foldSigns(e.B)
	if e.Subs != nil {
		c.Subs = make([]Sub, len(e.Subs))
		for i, s := range e.Subs {
			c.Subs[i] = Sub{From: foldSigns(s.From), To: foldSigns(s.To)}
		}
	}
	if e.Steps != nil {
		c.Steps = make([]*Expr, len(e.Steps))
		for i, s := range e.Steps {
			c.Steps[i] = foldSigns(s)
		}
	}
	if (c.K == KNeg || c.K == KPos) && c.A != nil && len(c.A.Steps) == 0 && (c.A.K == KInt || c.A.K == KNum) {
		lit := *c.A
		if c.K == KNeg {
			if lit.K == KInt && lit.I == math.MinInt64 {
				lit = Expr{K: KNum, F: 9223372036854775808}
			} else if lit.K == KInt {
				lit.I = -lit.I
			} else {
				lit.F = -lit.F
			}
		}
		lit.Steps = c.Steps
		return &lit
	}
	return &c
}

func writeKey(b *strings.Builder, e *Expr) {
	if e == nil {
		b.WriteString("nil")
		return
	}
	switch e.K {
	case KInt:
		fmt.Fprintf(b, "int(%d)", e.I)
	case KNum:
		fmt.Fprintf(b, "num(%s)", strconv.FormatFloat(e.F, 'g', -1, 64))
	case KStr, KVar, KKey:
		fmt.Fprintf(b, "%s(%s)", kindNames[e.K], strconv.QuoteToASCII(e.S))
	case KAny:
		fmt.Fprintf(b, "any(%d,%d)", e.First, e.Last)
	case KIndex:
		b.WriteString("index(")
		for i, s := range e.Subs {
			if i > 0 {
				b.WriteByte(',')
			}
			writeKey(b, s.From)
			if s.To != nil {
				b.WriteString(" to ")
				writeKey(b, s.To)
			}
		}
		b.WriteByte(')')
	case KMethod:
		b.WriteString("method(" + e.S + ")")
	case KDecimal:
		b.WriteString("decimal(" + optInt(e.P) + "," + optInt(e.Sc) + ")")
	case KDT:
		t := "-"
		if e.T != nil {
			t = strconv.QuoteToASCII(*e.T)
		}
		b.WriteString("dt(" + e.S + "," + optInt(e.P) + "," + t + ")")
	case KLikeRegex:
		src := e.S
		if e.Flags != "go" {
			src = "<uncompilable>"
			func() {
				defer func() { _ = recover() }()
				src = refRegexp(e.S, e.Flags).String()
			}()
		}
		b.WriteString("regex(")
		writeKey(b, e.A)
		b.WriteString("," + strconv.QuoteToASCII(src) + ")")
	default:
		b.WriteString(kindNames[e.K])
		if e.S != "" {
			b.WriteString("[" + e.S + "]")
		}
		if e.A != nil || e.B != nil {
			b.WriteByte('(')
			writeKey(b, e.A)
			if e.B != nil {
				b.WriteByte(',')
				writeKey(b, e.B)
			}
			b.WriteByte(')')
		}
	}
	for _, s := range e.Steps {
		b.WriteString(" -> ")
		writeKey(b, s)
	}
}

func optInt(p *int64) string {
	if p == nil {
		return "-"
	}
	return strconv.FormatInt(*p, 10)
}
