package main

// E1: deterministic universe enumerators, simplest first.

import (
	"encoding/json"
	"sort"
)

// Docs returns every JSON value with at most k nodes (a scalar, an array or an
// object counts one node; members add theirs) over the scalar alphabet and
// object keys given. Order: by node count, then lexicographic construction.
func Docs(k int, scalars []any, keys []string) []any {
	bySize := make([][]any, k+1)
	for n := 1; n <= k; n++ {
		var out []any
		if n == 1 {
			out = append(out, scalars...)
			out = append(out, []any{}, map[string]any{})
		}
		// arrays: sequences of children with total size n-1
		if n > 1 {
			for _, seq := range sequences(bySize, n-1) {
				out = append(out, append([]any{}, seq...))
			}
			// objects: non-empty key subsets (in key order) with children sizes summing to n-1
			for _, ks := range subsets(keys) {
				if len(ks) == 0 || len(ks) > n-1 {
					continue
				}
				for _, seq := range sequencesLen(bySize, n-1, len(ks)) {
					m := map[string]any{}
					for i, key := range ks {
						m[key] = seq[i]
					}
					out = append(out, m)
				}
			}
		}
		bySize[n] = out
	}
	var all []any
	for n := 1; n <= k; n++ {
		all = append(all, bySize[n]...)
	}
	return all
}

// sequences returns all non-empty sequences of values whose sizes sum to total.
func sequences(bySize [][]any, total int) [][]any {
	var out [][]any
	for l := 1; l <= total; l++ {
		out = append(out, sequencesLen(bySize, total, l)...)
	}
	return out
}

// sequencesLen returns all sequences of exactly l values whose sizes sum to total.
func sequencesLen(bySize [][]any, total, l int) [][]any {
	if l == 0 {
		if total == 0 {
			return [][]any{{}}
		}
		return nil
	}
	var out [][]any
	for first := 1; first <= total-(l-1); first++ {
		if first >= len(bySize) {
			break
		}
		rests := sequencesLen(bySize, total-first, l-1)
		if len(rests) == 0 {
			continue
		}
		for _, h := range bySize[first] {
			for _, r := range rests {
				seq := make([]any, 0, l)
				seq = append(seq, h)
				seq = append(seq, r...)
				out = append(out, seq)
			}
		}
	}
	return out
}

func subsets(keys []string) [][]string {
	var out [][]string
	n := len(keys)
	for mask := 0; mask < 1<<n; mask++ {
		var s []string
		for i := 0; i < n; i++ {
			if mask&(1<<i) != 0 {
				s = append(s, keys[i])
			}
		}
		out = append(out, s)
	}
	sort.SliceStable(out, func(i, j int) bool { return len(out[i]) < len(out[j]) })
	return out
}

// toNumberMode deep-copies v replacing float64 leaves by json.Number with the
// canonical JSON spelling.
func toNumberMode(v any) any {
	switch v := v.(type) {
	case float64:
		b, _ := json.Marshal(v)
		return json.Number(string(b))
	case []any:
		out := make([]any, len(v))
		for i, e := range v {
			out[i] = toNumberMode(e)
		}
		return out
	case map[string]any:
		out := make(map[string]any, len(v))
		for k, e := range v {
			out[k] = toNumberMode(e)
		}
		return out
	}
	return v
}

var stdScalars = []any{nil, true, float64(1), "a"}
var stdKeys = []string{"a", "b"}

// multiMember reports whether v contains an object with two or more members.
func multiMember(v any) bool {
	switch v := v.(type) {
	case []any:
		for _, e := range v {
			if multiMember(e) {
				return true
			}
		}
	case map[string]any:
		if len(v) >= 2 {
			return true
		}
		for _, e := range v {
			if multiMember(e) {
				return true
			}
		}
	}
	return false
}
