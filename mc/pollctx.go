package main

// E6: a context.Context that counts Done() polls and reports "done" from the
// k-th poll on. The executor polls once per executed path item, so this is the
// fault-injection seam for C20 (and the scheduling seam for C19) with no source
// change.

import (
	"context"
	"sync/atomic"
	"time"
)

var closedChan = func() chan struct{} { c := make(chan struct{}); close(c); return c }()

type pollCtx struct {
	parent    context.Context
	k         int64 // report done from poll index k (0-based); <0: never
	err       error
	polls     atomic.Int64
	fired     atomic.Bool
	pollsPost atomic.Int64 // polls after (not counting) the first done answer
	onPoll    func()       // optional hook (scheduler yield)
	onFire    func()       // optional: runs when the first "done" answer is given (cancels a real parent)
}

func newPollCtx(parent context.Context, k int64, err error) *pollCtx {
	if parent == nil {
		parent = context.Background()
	}
	return &pollCtx{parent: parent, k: k, err: err}
}

func (c *pollCtx) Deadline() (time.Time, bool) { return time.Time{}, false }

func (c *pollCtx) Done() <-chan struct{} {
	if c.onPoll != nil {
		c.onPoll()
	}
	n := c.polls.Add(1) - 1
	if c.fired.Load() {
		c.pollsPost.Add(1)
		return closedChan
	}
	if c.k >= 0 && n >= c.k {
		if c.onFire != nil {
			c.onFire()
		}
		c.fired.Store(true)
		return closedChan
	}
	return nil // a nil channel is never ready: "not done"
}

func (c *pollCtx) Err() error {
	if c.fired.Load() {
		return c.err
	}
	return nil
}

func (c *pollCtx) Value(key any) any { return c.parent.Value(key) }
