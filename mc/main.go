package main

import (
	"encoding/json"
	"fmt"
	"os"
	"path/filepath"
	"sort"
)

type checkDef struct {
	run    func(*Run)
	replay func(Case) *Failure
}

var checks = map[string]checkDef{}

func register(id string, run func(*Run), replay func(Case) *Failure) {
	checks[id] = checkDef{run, replay}
}

func init() {
	register("C01", runC01, checkC01)
	register("C02", runC02, checkC02)
	register("C03", runC03, checkC03)
	register("C04", runC04, checkC04)
	register("C05", runC05, checkC05)
	register("C06", runC06, checkC06)
	register("C07", runC07, checkC07)
	register("C08", runC08, checkC08)
	register("C09", runC09, checkC09)
	register("C10", runC10, checkC10)
	register("C11", runC11, checkC11)
	register("C12", runC12, checkC12)
	register("C13", runC13, checkC13R)
	register("C14", runC14, checkC14)
	register("C15", runC15, checkC15)
	register("C16", runC16, checkC16)
	register("C17", runC17, checkC17)
	register("C18", runC18, checkC18)
	register("C19", runC19, checkC19)
	register("C20", runC20, checkC20)
}

func usage() {
	ids := make([]string, 0, len(checks))
	for id := range checks {
		ids = append(ids, id)
	}
	sort.Strings(ids)
	fmt.Fprintf(os.Stderr, "usage: mc <ID> [--tier quick|thorough] [--replay file]\nchecks: %v\n", ids)
	os.Exit(2)
}

func main() {
	if len(os.Args) < 2 {
		usage()
	}
	if os.Args[1] == "--crash-report" && len(os.Args) == 6 {
		os.Exit(crashReport(os.Args[2], os.Args[3], os.Args[4], os.Args[5]))
	}
	id := os.Args[1]
	def, ok := checks[id]
	if !ok {
		usage()
	}
	tier := os.Getenv("VERIF_TIER")
	if tier == "" {
		tier = "quick"
	}
	replay := ""
	for i := 2; i < len(os.Args); i++ {
		switch os.Args[i] {
		case "--tier":
			i++
			if i < len(os.Args) {
				tier = os.Args[i]
			}
		case "--race-worker":
			c19RaceWorker()
			return
		case "--solo":
			if i+1 < len(os.Args) {
				c19SoloMain(os.Args[i+1])
			}
			return
		case "--replay":
			i++
			if i < len(os.Args) {
				replay = os.Args[i]
			}
		default:
			usage()
		}
	}
	if tier != "quick" && tier != "thorough" {
		usage()
	}
	if replay != "" {
		os.Exit(doReplay(id, def, replay))
	}
	inflightInit()
	r := newRun(id, tier)
	r.Level = "model_checking"
	replayRegress(id, def, r)
	def.run(r)
	os.Exit(r.Finish())
}

// doReplay re-executes exactly one recorded case with no explorer.
func doReplay(id string, def checkDef, file string) int {
	b, err := os.ReadFile(file)
	if err != nil {
		fmt.Fprintln(os.Stderr, err)
		return 2
	}
	var v struct {
		Case  Case   `json:"case"`
		Sig   string `json:"sig"`
		Crash bool   `json:"crash"`
	}
	if err := json.Unmarshal(b, &v); err != nil {
		fmt.Fprintln(os.Stderr, err)
		return 2
	}
	if v.Crash {
		// a process death has no single-case replay: the whole check is run again
		inflightInit()
		r := newRun(id, "quick")
		r.Level = "model_checking"
		def.run(r)
		return r.Finish()
	}
	if def.replay == nil {
		fmt.Fprintln(os.Stderr, "no replay function for", id)
		return 2
	}
	f := def.replay(v.Case)
	if f == nil {
		fmt.Printf("replay %s: case holds on this tree (recorded sig %s)\n", file, v.Sig)
		return 0
	}
	fmt.Printf("VIOLATION property=%s replay=%s\n  sig=%s\n  expected: %s\n  observed: %s\n", id, file, f.Sig, f.Expected, f.Observed)
	return 1
}

func checkC13R(c Case) *Failure {
	switch c.Rule {
	case "double-negation", "commutativity":
		return c13Law(c)
	case "operand-sequence":
		return c13Seq(c)
	case "exists-agrees":
		return c13ExistsAgrees(c)
	}
	return checkC13(c)
}

// replayRegress re-decides the recorded witnesses of defects that were repaired
// (/verif/replays/regress/<ID>-*.json): a fixed entry suppresses nothing, so a
// witness that fails again is reported like any other violation.
func replayRegress(id string, def checkDef, r *Run) {
	files, _ := filepath.Glob(filepath.Join(verifRoot, "replays", "regress", id+"-*.json"))
	sort.Strings(files)
	n := 0
	for _, f := range files {
		b, err := os.ReadFile(f)
		if err != nil {
			continue
		}
		var v struct {
			Case Case   `json:"case"`
			Sig  string `json:"sig"`
		}
		if json.Unmarshal(b, &v) != nil || def.replay == nil {
			continue
		}
		n++
		if fl := def.replay(v.Case); fl != nil {
			fl.Sig = fl.Sig + "#regression-of-" + filepath.Base(f)
			r.Fail(v.Case, fl)
		}
	}
	r.Extra("regression_witnesses_replayed", n)
}
