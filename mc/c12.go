package main

// C12 — comparisons and string predicates impose one consistent order.

import (
	"encoding/json"
	"fmt"
	"regexp"
	"strconv"
	"strings"
)

type c12Val struct {
	tag    string // tagged value (decodeTagged)
	suffix string // method applied in the path (datetime values)
	lit    string // literal spelling, if spellable in a path
}

func (v c12Val) String() string { return v.tag + v.suffix }

func c12Corpus(thorough bool) []c12Val {
	var out []c12Val
	add := func(tag, suffix, lit string) { out = append(out, c12Val{tag, suffix, lit}) }
	add("j:null", "", "null")
	add("j:false", "", "false")
	add("j:true", "", "true")
	ints := []int64{-9007199254740992, -9007199254740993, 0, 1, -1, 2147483647, 2147483648, 9007199254740991, 9007199254740992, 9007199254740993, 9223372036854775807, -9223372036854775808, 9223372036854775806}
	for _, i := range ints {
		s := strconv.FormatInt(i, 10)
		lit := s
		if i < 0 {
			lit = "(" + s + ")"
		}
		if i == -9223372036854775808 {
			lit = "" // spelled -9223372036854775808 the literal does not parse on this tree (C04)
		}
		add("i:"+s, "", lit)
		add("n:"+s, "", "")
		add("f:"+strconv.FormatFloat(float64(i), 'g', -1, 64), "", "")
	}
	for _, i := range []int64{-42, -43, 42} {
		s := strconv.FormatInt(i, 10)
		add("i:"+s, "", "")
		add("n:"+s, "", "")
	}
	for _, f := range []string{"0.5", "1e-07", "1e+308", "9.223372036854775808e+18", "-0", "1.5", "9007199254740992.0", "-0.5", "-1.5", "-42.5", "42.5", "-1e-07", "-9.223372036854775808e+18"} {
		add("f:"+f, "", "")
	}
	for _, n := range []string{"0.5", "1E2", "100", "1.0", "1.50", "0.0", "-0", "1e2", "9223372036854775808", "0.1", "-0.5", "-42.5", "-9223372036854775809"} {
		add("n:"+n, "", "")
	}
	add("f:100", "", "")
	add("f:0.1", "", "0.1")
	for _, s := range []string{"", "a", "A", "ab", "b", "é", "\uffff", "\U00010000", "a\x00"} {
		add("s:"+s, "", "")
	}
	// datetimes (delivered as strings with the method applied in the path)
	dts := []struct{ s, m string }{
		{"2015-08-02", ".date()"}, {"2015-08-03", ".date()"},
		{"12:00:00", ".time()"}, {"12:00:00.5", ".time()"},
		{"12:00:00+00", ".time_tz()"}, {"13:00:00+01", ".time_tz()"}, {"12:00:00+01", ".time_tz()"},
		{"2015-08-02T00:00:00", ".timestamp()"}, {"2015-08-02T12:00:00", ".timestamp()"},
		{"2015-08-02T00:00:00+00:00", ".timestamp_tz()"}, {"2015-08-02T01:00:00+01:00", ".timestamp_tz()"}, {"2015-08-01T20:00:00-04:00", ".timestamp_tz()"},
		// the ends of the supported range and the instants where a 64-bit nanosecond count wraps
		{"0001-01-01T00:00:00+00:00", ".timestamp_tz()"}, {"9999-12-31T23:59:59+00:00", ".timestamp_tz()"}, {"1677-09-21T00:12:43+00:00", ".timestamp_tz()"},
		{"2262-04-11T23:47:17+00:00", ".timestamp_tz()"}, {"0001-01-01", ".date()"}, {"9999-12-31", ".date()"}, {"9999-12-31T23:59:59.999999", ".timestamp()"}, {"0001-01-01T00:00:00", ".timestamp()"},
	}
	for _, d := range dts {
		add("s:"+d.s, d.m, "")
	}
	add("j:[]", "", "")
	add("j:[1]", "", "")
	add("j:[1,2]", "", "")
	add("j:[[1]]", "", "") // a singleton array inside an array: still an array after one level of lax unwrapping
	add(`j:[["a"]]`, "", "")
	add("j:[[null]]", "", "")
	add("j:[[]]", "", "")
	add("j:{}", "", "")
	add(`j:{"a":1}`, "", "")
	if thorough {
		for _, i := range []int64{2, -2, 2147483646, -2147483648, 4503599627370497, -9007199254740993} {
			s := strconv.FormatInt(i, 10)
			add("i:"+s, "", "")
			add("n:"+s, "", "")
			add("f:"+strconv.FormatFloat(float64(i), 'g', -1, 64), "", "")
		}
		for _, s := range []string{"aa", "B", "ba", "\x7f", "\u0080", "e\u0301"} {
			add("s:"+s, "", "")
		}
	}
	return out
}

var cmpOps = []string{"==", "!=", "<", "<=", ">", ">="}

type c12Cfg struct {
	mode     string // "" | "strict "
	delivery string // vars | doc | lit
	tz       bool
}

// c12Observe returns T/F/U/E for `x op y`.
func c12Observe(cfg c12Cfg, x, y c12Val, op string) (string, string) {
	var text string
	var vars map[string]any
	var doc any
	switch cfg.delivery {
	case "vars":
		text = cfg.mode + "$a" + x.suffix + " " + op + " $b" + y.suffix
		vars = map[string]any{"a": decodeTagged(x.tag, "float64"), "b": decodeTagged(y.tag, "float64")}
	case "doc":
		text = cfg.mode + "$.x" + x.suffix + " " + op + " $.y" + y.suffix
		doc = map[string]any{"x": decodeTagged(x.tag, "float64"), "y": decodeTagged(y.tag, "float64")}
	case "lit":
		text = cfg.mode + x.lit + x.suffix + " " + op + " " + y.lit + y.suffix
	}
	p, err, pan := parseCached(text)
	if err != nil || pan != "" {
		return "?", fmt.Sprintf("parse failure %q: %v %s", text, err, pan)
	}
	o := implQuery(p, doc, runCfg{vars: vars, tz: cfg.tz})
	switch {
	case o.Class == "hard":
		return "E", text + " => " + o.String()
	case o.Class == "invalid":
		return "I", text + " => " + o.String()
	case o.Class != "ok" || len(o.Items) != 1:
		return "?", text + " => " + o.String()
	}
	switch o.Items[0] {
	case true:
		return "T", text
	case false:
		return "F", text
	case nil:
		return "U", text
	}
	return "?", text + " => " + o.String()
}

// c12RefValue materialises a corpus value for the reference order.
func c12RefValue(v c12Val, rc *refCtx) (any, *refErr) {
	val := decodeTagged(v.tag, "float64")
	if v.suffix == "" {
		return val, nil
	}
	name := strings.TrimSuffix(strings.TrimPrefix(v.suffix, "."), "()")
	var out any
	err := rc.datetime(&Expr{K: KDT, S: name}, val, func(x any) *refErr { out = x; return nil })
	return out, err
}

// c12Expected: the reference outcome of `x op y` under cfg (sequence semantics included).
func c12Expected(cfg c12Cfg, x, y c12Val, op string) (string, string) {
	rc := newRefCtx(cfg.mode != "", nil, nil, cfg.tz, nil)
	xv, e1 := c12RefValue(x, rc)
	yv, e2 := c12RefValue(y, rc)
	if e1 != nil || e2 != nil {
		for _, e := range []*refErr{e1, e2} {
			if e != nil && e.hard {
				return "E", ""
			}
		}
		return "U", ""
	}
	seq := func(v any) []any {
		if arr, ok := v.([]any); ok && cfg.mode == "" {
			return arr
		}
		return []any{v}
	}
	t, err := rc.pairs(seq(xv), seq(yv), func(a, b any) (tv, *refErr) { return rc.compare(op, a, b) })
	if rc.declined != "" {
		return "declined", rc.declined
	}
	if err != nil {
		return "E", ""
	}
	return [...]string{"F", "T", "U"}[t], ""
}

func c12Decode(c Case) (c12Cfg, c12Val, c12Val) {
	cfg := c12Cfg{mode: c.Extra["mode"], delivery: c.Extra["delivery"], tz: c.TZ}
	x := c12Val{tag: c.Extra["x"], suffix: c.Extra["xs"], lit: c.Extra["xl"]}
	y := c12Val{tag: c.Extra["y"], suffix: c.Extra["ys"], lit: c.Extra["yl"]}
	return cfg, x, y
}

func c12Case(rule string, cfg c12Cfg, x, y c12Val) Case {
	return Case{Rule: rule, TZ: cfg.tz, Extra: map[string]string{"mode": cfg.mode, "delivery": cfg.delivery,
		"x": x.tag, "xs": x.suffix, "xl": x.lit, "y": y.tag, "ys": y.suffix, "yl": y.lit}}
}

func kindOfTag(v c12Val) string {
	if v.suffix != "" {
		return "dt" + v.suffix
	}
	switch v.tag[0] {
	case 'i':
		return "int64"
	case 'f':
		return "float64"
	case 'n':
		return "json.Number"
	case 's':
		return "string"
	}
	switch v.tag {
	case "j:null":
		return "null"
	case "j:true", "j:false":
		return "bool"
	}
	if strings.HasPrefix(v.tag, "j:[") {
		return "array"
	}
	return "object"
}

// checkC12Pair checks one ordered pair under one configuration: agreement with
// the reference order for all six operators, and the axioms that relate the
// operators to each other and to the mirrored pair.
func checkC12Pair(c Case) *Failure {
	cfg, x, y := c12Decode(c)
	kinds := kindOfTag(x) + "," + kindOfTag(y)
	obs := map[string]string{}
	mir := map[string]string{}
	isDT := func(v c12Val) bool { return v.suffix != "" }
	for _, op := range cmpOps {
		o, detail := c12Observe(cfg, x, y, op)
		if m, _ := c12Observe(cfg, y, x, op); o == "I" || m == "I" {
			// the recorded defect: datetime on the left, another non-null kind on the right
			dt, other := x, y
			if m == "I" {
				dt, other = y, x
			}
			laxArray := kindOfTag(other) == "array" && cfg.mode == ""
			if isDT(dt) && !isDT(other) && other.tag != "j:null" && !(laxArray && other.tag == "j:[]") {
				return &Failure{Sig: "C12/known/datetime-vs-other-errinvalid", Expected: "unknown", Observed: detail}
			}
			return &Failure{Sig: "C12/errinvalid/" + kinds, Expected: "true, false, null or a non-suppressible error", Observed: detail}
		}
		if o == "?" {
			return &Failure{Sig: "C12/unexpected-outcome/" + kinds, Expected: "true, false, null or a non-suppressible error", Observed: detail}
		}
		obs[op] = o
		exp, why := c12Expected(cfg, x, y, op)
		if exp != "declined" && exp != o {
			return &Failure{Sig: fmt.Sprintf("C12/order/%s/%s=%s-want-%s/%s", kinds, op, o, exp, strings.TrimSpace(cfg.mode+cfg.delivery)), Expected: exp + " " + why, Observed: o + ": " + detail}
		}
		m, _ := c12Observe(cfg, y, x, op)
		mir[op] = m
	}
	// duality with the mirrored pair
	for _, d := range [][2]string{{"<", ">"}, {"<=", ">="}, {"==", "=="}, {"!=", "!="}, {">", "<"}, {">=", "<="}} {
		if obs[d[0]] != mir[d[1]] {
			return &Failure{Sig: "C12/duality/" + kinds + "/" + d[0], Expected: fmt.Sprintf("(x %s y) = (y %s x)", d[0], d[1]), Observed: obs[d[0]] + " vs " + mir[d[1]] + " for x=" + x.String() + " y=" + y.String()}
		}
	}
	scalar := func(v c12Val) bool { k := kindOfTag(v); return k != "array" || cfg.mode != "" }
	if scalar(x) && scalar(y) && obs["=="] != "E" {
		lt, eq, gt := obs["<"], obs["=="], obs[">"]
		isNull := func(v c12Val) bool { return v.tag == "j:null" }
		switch {
		case isNull(x) != isNull(y):
			// null vs non-null: only != holds
			for _, op := range cmpOps {
				want := "F"
				if op == "!=" {
					want = "T"
				}
				if obs[op] != want {
					return &Failure{Sig: "C12/null-rule/" + kinds + "/" + op, Expected: want, Observed: obs[op]}
				}
			}
		case eq == "U":
			for _, op := range cmpOps {
				if obs[op] != "U" {
					return &Failure{Sig: "C12/incomparable-not-uniform/" + kinds + "/" + op, Expected: "U for every operator", Observed: obs[op]}
				}
			}
		default:
			n := 0
			for _, v := range []string{lt, eq, gt} {
				if v == "T" {
					n++
				} else if v != "F" {
					return &Failure{Sig: "C12/trichotomy/" + kinds, Expected: "<, ==, > each true or false", Observed: lt + eq + gt}
				}
			}
			if n != 1 {
				return &Failure{Sig: "C12/trichotomy/" + kinds, Expected: "exactly one of <, ==, > holds", Observed: "<:" + lt + " ==:" + eq + " >:" + gt + " for x=" + x.String() + " y=" + y.String()}
			}
			or := func(a, b string) string {
				if a == "T" || b == "T" {
					return "T"
				}
				return "F"
			}
			if obs["<="] != or(lt, eq) || obs[">="] != or(gt, eq) || obs["!="] != map[string]string{"T": "F", "F": "T"}[eq] {
				return &Failure{Sig: "C12/unions/" + kinds, Expected: "<= is < or ==, >= is > or ==, != is not ==", Observed: fmt.Sprint(obs)}
			}
		}
	}
	return nil
}

// checkC12Triple: transitivity of < and == on one triple (vars delivery).
func checkC12Triple(c Case) *Failure {
	cfg := c12Cfg{mode: c.Extra["mode"], delivery: "vars", tz: c.TZ}
	x := c12Val{tag: c.Extra["x"], suffix: c.Extra["xs"]}
	y := c12Val{tag: c.Extra["y"], suffix: c.Extra["ys"]}
	z := c12Val{tag: c.Extra["z"], suffix: c.Extra["zs"]}
	for _, op := range []string{"<", "==", "<="} {
		a, _ := c12Observe(cfg, x, y, op)
		b, _ := c12Observe(cfg, y, z, op)
		if a == "T" && b == "T" {
			if cc, _ := c12Observe(cfg, x, z, op); cc != "T" {
				return &Failure{Sig: "C12/transitivity/" + op + "/" + kindOfTag(x) + "," + kindOfTag(y) + "," + kindOfTag(z), Expected: "x " + op + " z", Observed: cc + " for x=" + x.String() + " y=" + y.String() + " z=" + z.String()}
			}
		}
	}
	return nil
}

func checkC12(c Case) *Failure {
	switch c.Rule {
	case "pair":
		return checkC12Pair(c)
	case "triple":
		return checkC12Triple(c)
	case "sequence":
		return checkC12Seq(c)
	case "starts-with":
		return checkC12StartsWith(c)
	case "like-regex":
		return checkC12Regex(c)
	case "sequence-rule-by-mode-vs-reference":
		f, _ := compareQueryWithRef("C12", c, nil)
		return f
	}
	panic("harness: C12 rule")
}

func runC12(r *Run) {
	r.Rule("all ordered pairs of a value corpus (null, booleans, numbers at 0, +-1, 2^31, 2^53+-1, 2^63 in int64/float64/json.Number representations and spellings, strings incl. byte-order vs UTF-16-order witnesses, five datetime kinds, arrays, objects) x six operators x both operand orders x both modes x {variables, document members, literals}, against the reference order and the order axioms (trichotomy, duality, unions, null rules, incomparability); all triples for transitivity; all pairs of sequences of <=2 values of a reduced corpus for the lax-existential / strict-unknown rule; starts with over all pairs of a string corpus; like_regex over patterns x flag subsets x subjects against Go regexp; non-trivial = every pair (all distinct)")
	corpus := c12Corpus(r.Thorough())
	r.Bound("corpus_values", len(corpus))
	cfgs := []c12Cfg{{"", "vars", false}, {"strict ", "vars", false}, {"", "doc", false}, {"strict ", "doc", false}, {"", "vars", true}, {"strict ", "vars", true}}
	n := len(corpus) * len(corpus)
	r.ParFor(n, func(i int) {
		x, y := corpus[i/len(corpus)], corpus[i%len(corpus)]
		for _, cfg := range cfgs {
			c := c12Case("pair", cfg, x, y)
			r.evals.Add(1)
			r.traces.Add(12)
			r.transitions.Add(12)
			if f := checkC12Pair(c); f != nil {
				c.Path = cfg.mode + "$a" + x.suffix + " ? $b" + y.suffix
				r.Fail(c, f)
			}
		}
		if x.lit != "" && y.lit != "" {
			for _, mode := range []string{"", "strict "} {
				cfg := c12Cfg{mode, "lit", false}
				c := c12Case("pair", cfg, x, y)
				r.evals.Add(1)
				if f := checkC12Pair(c); f != nil {
					r.Fail(c, f)
				}
			}
		}
		r.Distinct(x.String() + "|" + y.String())
		if i%1501 == 0 {
			r.Sample(map[string]string{"x": x.String(), "y": y.String()})
		}
	})
	r.states.Add(int64(n))
	// transitivity over all triples of scalar values
	var scal []c12Val
	for _, v := range corpus {
		if k := kindOfTag(v); k != "array" && k != "object" && k != "null" {
			scal = append(scal, v)
		}
	}
	m := len(scal)
	r.Bound("transitivity_triples", m*m*m)
	r.ParFor(m*m, func(i int) {
		x, y := scal[i/m], scal[i%m]
		for _, tz := range []bool{false, true} {
			cfg := c12Cfg{"", "vars", tz}
			if a, _ := c12Observe(cfg, x, y, "<="); a != "T" {
				continue // neither <, == nor <= can chain
			}
			for _, z := range scal {
				c := Case{Rule: "triple", TZ: tz, Extra: map[string]string{"mode": "", "x": x.tag, "xs": x.suffix, "y": y.tag, "ys": y.suffix, "z": z.tag, "zs": z.suffix}}
				r.evals.Add(1)
				if f := checkC12Triple(c); f != nil {
					r.Fail(c, f)
				}
			}
		}
	})
	runC12Seq(r)
	runC12Strings(r)
	// the pairwise rule is decided by the path's mode alone, also below .** (where structural errors are ignored)
	var es []*Expr
	for _, pf := range []*Expr{eRoot(sAny(0, -1)), eRoot(sAny(1, 1)), eRoot(sAnyArray()), eRoot()} {
		for _, op := range cmpOps {
			for _, rhs := range []*Expr{eInt(1), eStr("a"), eNull(), eTrue()} {
				es = append(es, pf.withSteps(sFilter(eCmp(op, eCur(sAnyArray()), rhs))), pf.withSteps(sFilter(eCmp(op, rhs, eCur(sAnyArray())))),
					pf.withSteps(sFilter(eIsUnknown(eCmp(op, eCur(sAnyArray()), rhs)))))
			}
		}
		es = append(es, pf.withSteps(sFilter(eStartsWith(eCur(sAnyArray()), eStr("a")))), pf.withSteps(sFilter(eLikeRegex(eCur(sAnyArray()), "a", ""))),
			pf.withSteps(sFilter(eIsUnknown(eStartsWith(eCur(sAnyArray()), eStr("a"))))), pf.withSteps(sFilter(eIsUnknown(eLikeRegex(eCur(sAnyArray()), "a", "")))))
	}
	refSweep(r, "sequence-rule-by-mode-vs-reference", bothModes(es), makeDocs(Docs(3, stdScalars, stdKeys)), []sweepCfg{{Num: "float64"}})
}

// ---- sequences ----

func c12SeqCorpus() []string {
	return []string{"j:null", "j:true", "i:1", "f:1", "n:1", "i:2", "f:0.5", "s:a", "s:b", "j:[1]", `j:{"a":1}`, "j:false"}
}

func checkC12Seq(c Case) *Failure {
	mode := c.Extra["mode"]
	l := mustDoc(c.Extra["l"], "float64").([]any)
	rr := mustDoc(c.Extra["r"], "float64").([]any)
	conv := func(in []any) []any {
		out := make([]any, len(in))
		for i, s := range in {
			out[i] = decodeTagged(s.(string), "float64")
		}
		return out
	}
	lv, rv := conv(l), conv(rr)
	op := c.Extra["op"]
	p, err, pan := parseCached(mode + "$a[*] " + op + " $b[*]")
	if err != nil || pan != "" {
		return &Failure{Sig: "C12/parse", Expected: "parses", Observed: fmt.Sprint(err, pan)}
	}
	o := implQuery(p, nil, runCfg{vars: map[string]any{"a": lv, "b": rv}})
	rc := newRefCtx(mode != "", nil, nil, false, nil)
	// $a[*] delivers the elements; the comparison then unwraps arrays once more in lax mode
	unwrap := func(in []any) []any {
		if mode != "" {
			return in
		}
		var out []any
		for _, v := range in {
			if arr, ok := v.([]any); ok {
				out = append(out, arr...)
			} else {
				out = append(out, v)
			}
		}
		return out
	}
	t, _ := rc.pairs(unwrap(lv), unwrap(rv), func(a, b any) (tv, *refErr) { return rc.compare(op, a, b) })
	want := [...]string{"[false]", "[true]", "[null]"}[t]
	if o.Class != "ok" || canonList(o.Items) != want {
		return &Failure{Sig: "C12/sequence-rule/" + strings.TrimSpace(mode + "lax")[:3] + "/" + op, Expected: want, Observed: o.String()}
	}
	return nil
}

func runC12Seq(r *Run) {
	corp := c12SeqCorpus()
	var seqs [][]string
	seqs = append(seqs, []string{})
	for _, a := range corp {
		seqs = append(seqs, []string{a})
	}
	for _, a := range corp {
		for _, b := range corp {
			seqs = append(seqs, []string{a, b})
		}
	}
	r.Bound("sequences", len(seqs))
	n := len(seqs) * len(seqs)
	r.ParFor(n, func(i int) {
		l, rr := seqs[i/len(seqs)], seqs[i%len(seqs)]
		lj, _ := json.Marshal(l)
		rj, _ := json.Marshal(rr)
		for _, op := range []string{"==", "<", "!="} {
			for _, mode := range []string{"", "strict "} {
				c := Case{Rule: "sequence", Extra: map[string]string{"mode": mode, "l": string(lj), "r": string(rj), "op": op}}
				r.evals.Add(1)
				r.traces.Add(1)
				if f := checkC12Seq(c); f != nil {
					r.Fail(c, f)
				}
			}
		}
	})
}

// ---- starts with / like_regex ----

func checkC12StartsWith(c Case) *Failure {
	whole := decodeTagged(c.Extra["x"], "float64")
	init := decodeTagged(c.Extra["y"], "float64")
	mode := c.Extra["mode"]
	p, _, _ := parseCached(mode + "$a starts with $b")
	o := implQuery(p, nil, runCfg{vars: map[string]any{"a": whole, "b": init}})
	want := "[null]"
	ws, ok1 := whole.(string)
	is, ok2 := init.(string)
	if arr, ok := whole.([]any); ok && mode == "" && len(arr) == 1 { // lax unwraps the left operand only
		ws, ok1 = arr[0].(string)
	}
	if ok1 && ok2 {
		want = "[false]"
		if strings.HasPrefix(ws, is) {
			want = "[true]"
		}
	}
	if arr, ok := whole.([]any); ok && mode == "" && len(arr) == 0 {
		want = "[false]"
	}
	if o.Class != "ok" || canonList(o.Items) != want {
		return &Failure{Sig: "C12/starts-with/" + want, Expected: want, Observed: o.String() + " for " + c.Extra["x"] + " starts with " + c.Extra["y"]}
	}
	return nil
}

func checkC12Regex(c Case) *Failure {
	subject := decodeTagged(c.Extra["x"], "float64")
	pat, flags := c.Extra["pat"], c.Extra["flags"]
	text := "$a like_regex " + quoteJS(pat)
	if flags != "" {
		text += " flag " + quoteJS(flags)
	}
	p, err, pan := parseCached(text)
	var goRe *regexp.Regexp
	func() {
		defer func() { _ = recover() }()
		goRe = refRegexp(pat, flags)
	}()
	if goRe == nil {
		// Go cannot compile it: the parser must reject it
		if err == nil && pan == "" {
			return &Failure{Sig: "C12/like-regex/accepted-uncompilable", Expected: "parse error", Observed: text + " parsed"}
		}
		return nil
	}
	if err != nil || pan != "" {
		return &Failure{Sig: "C12/like-regex/rejected-compilable", Expected: "parses (Go compiles the translated pattern)", Observed: fmt.Sprint(text, " ", err, pan)}
	}
	o := implQuery(p, nil, runCfg{vars: map[string]any{"a": subject}})
	want := "[null]"
	if s, ok := subject.(string); ok {
		want = "[false]"
		if goRe.MatchString(s) {
			want = "[true]"
		}
	}
	if o.Class != "ok" || canonList(o.Items) != want {
		return &Failure{Sig: "C12/like-regex/match/" + flags, Expected: want + " (Go regexp " + goRe.String() + ")", Observed: o.String() + " for subject " + c.Extra["x"]}
	}
	return nil
}

func runC12Strings(r *Run) {
	strs := []string{"s:", "s:a", "s:ab", "s:abc", "s:b", "s:A", "s:aB", "s:é", "s:éa", "s:e", "s:\uffff", "s:\U00010000", "s:a b", "s:.", "s:a.c", "s:\n", "s:a\nb", "s:^a", "s:$", "s:\\"}
	others := []string{"j:null", "i:1", "j:true", "j:[]", `j:["a"]`, `j:{"a":"a"}`}
	all := append(append([]string{}, strs...), others...)
	for _, x := range all {
		for _, y := range all {
			for _, mode := range []string{"", "strict "} {
				c := Case{Rule: "starts-with", Extra: map[string]string{"x": x, "y": y, "mode": mode}}
				r.evals.Add(1)
				if f := checkC12StartsWith(c); f != nil {
					r.Fail(c, f)
				}
			}
		}
	}
	pats := []string{"a", "^a", "a$", "a.c", "^a.b$", "A", "[ab]+", "a|b", "^$", ".", "\\.", "a b", "(?i)a", "^a$",
		// letters whose simple case folding is not lower-casing (long s, final sigma, micro sign, dotted I, Kelvin sign), and their partners
		"wasser", "s", "ſ", "σ", "ς", "Σ", "µ", "μ", "i", "İ", "ı", "k", "K", "ǆ", "ǅ", "ß", "SS", "é", "É", "\\E", "a\\Eb", "\\Qa"}
	flagSets := []string{"", "i", "s", "m", "q", "is", "im", "sm", "iq", "sq", "mq", "ism", "isq", "imq", "smq", "ismq"}
	subjects := []string{"s:a", "s:A", "s:ab", "s:ba", "s:a\nb", "s:b\na", "s:a.c", "s:abc", "s:a\nc", "s:", "s:\n", "s:a b", "s:^a", "s:A.C", "s:.", "i:1", "j:null",
		"s:Waſſer", "s:WASSER", "s:ſ", "s:S", "s:ς", "s:Σ", "s:σ", "s:µ", "s:Μ", "s:İ", "s:I", "s:ı", "s:K", "s:k", "s:ǅ", "s:Ǆ", "s:ß", "s:ss", "s:É", "s:e\u0301", "s:\\E", "s:a\\Eb", "s:ab"}
	r.Bound("regex_cases", len(pats)*len(flagSets)*len(subjects))
	for _, p := range pats {
		for _, f := range flagSets {
			for _, s := range subjects {
				c := Case{Rule: "like-regex", Extra: map[string]string{"x": s, "pat": p, "flags": f}}
				r.evals.Add(1)
				if fl := checkC12Regex(c); fl != nil {
					r.Fail(c, fl)
				}
			}
		}
	}
}
