package main

// C14 — array subscripts select by position, with last, ranges and lists.

func c14Docs() []docEntry {
	elems := []any{nil, float64(1), "a", []any{float64(2)}, map[string]any{"a": float64(3)}}
	var vals []any
	var rec func(prefix []any, n int)
	rec = func(prefix []any, n int) {
		if n == 0 {
			vals = append(vals, append([]any{}, prefix...))
			return
		}
		for _, e := range elems {
			rec(append(prefix, e), n-1)
		}
	}
	for n := 0; n <= 4; n++ {
		rec(nil, n)
	}
	// non-array items
	vals = append(vals, nil, float64(1), "a", map[string]any{"a": float64(3)}, true)
	// nested arrays for nested subscripts
	vals = append(vals, []any{[]any{float64(0), float64(1)}, []any{float64(1), float64(0), float64(2)}, float64(1)},
		[]any{float64(2), float64(0), []any{float64(5), float64(1)}})
	return makeDocs(vals)
}

func c14Bounds() []*Expr {
	b := []*Expr{}
	for i := int64(-2); i <= 6; i++ {
		b = append(b, eInt(i))
	}
	b = append(b, eNum(-0.5), eNum(0.5), eNum(1.9), eLast(), lastMinus(1), lastPlus(1), lastMinus(5))
	return b
}

func c14Paths(thorough bool) []Path {
	var es []*Expr
	bounds := c14Bounds()
	for _, b := range bounds {
		es = append(es, eRoot(sIndex(sub1(b))))
	}
	for _, a := range bounds {
		for _, b := range bounds {
			es = append(es, eRoot(sIndex(subR(a, b))))
		}
	}
	reduced := []*Expr{eInt(-1), eInt(0), eInt(1), eInt(3), eLast()}
	var subs []Sub
	for _, a := range reduced {
		subs = append(subs, sub1(a))
	}
	for _, a := range reduced {
		for _, b := range reduced {
			subs = append(subs, subR(a, b))
		}
	}
	for _, s1 := range subs {
		for _, s2 := range subs {
			es = append(es, eRoot(sIndex(s1, s2)))
		}
	}
	if thorough {
		small := []Sub{sub1(eInt(0)), sub1(eInt(1)), sub1(eLast()), sub1(eInt(4)), subR(eInt(0), eInt(1)), subR(eInt(1), eLast()), subR(eInt(2), eInt(1))}
		for _, s1 := range small {
			for _, s2 := range small {
				for _, s3 := range small {
					es = append(es, eRoot(sIndex(s1, s2, s3)))
				}
			}
		}
	}
	// nested subscripts
	nested := []*Expr{
		eRoot(sIndex(sub1(eRoot(sIndex(sub1(eInt(0))))))),
		eRoot(sIndex(sub1(eRoot(sIndex(sub1(eInt(1))))))),
		eRoot(sIndex(sub1(eLast())), sIndex(sub1(eLast()))),
		eRoot(sIndex(sub1(eInt(0))), sIndex(sub1(eLast()))),
		eRoot(sIndex(sub1(eArith("-", eRoot(sIndex(sub1(eLast())), sIndex(sub1(eLast()))), eInt(1))))),
		eRoot(sIndex(sub1(eRoot(sIndex(sub1(eLast())), sIndex(sub1(eInt(0))))), sub1(eLast()))),
		eRoot(sIndex(subR(eRoot(sIndex(sub1(eInt(0)))), eLast()))),
		eRoot(sIndex(sub1(eRoot(sIndex(sub1(eInt(0))), sIndex(sub1(eLast())))), sub1(eLast()))),
		eRoot(sIndex(sub1(eRoot(sIndex(sub1(eLast())), sIndex(sub1(eInt(1))))), subR(eInt(0), eLast()))),
		eRoot(sIndex(sub1(eRoot(sIndex(sub1(eInt(2))), sIndex(sub1(eLast())))), sub1(lastMinus(1)))),
	}
	es = append(es, nested...)
	// subscripts that are not a single number within int32
	bad := []*Expr{eStr("a"), eNull(), eTrue(), eRoot(sAnyArray()), eInt(2147483648), eInt(-2147483649), eNum(1e10), eNum(-1e10),
		eRoot(sKey("a")), eRoot(sIndex(sub1(eInt(3)))), eNum(2147483647.5), eNum(-2147483648.5), eInt(2147483647), eInt(-2147483648)}
	for _, b := range bad {
		es = append(es, eRoot(sIndex(sub1(b))), eRoot(sIndex(subR(eInt(0), b))), eRoot(sIndex(subR(b, eInt(1)))), eRoot(sIndex(sub1(eInt(0)), sub1(b))))
	}
	return bothModes(es)
}

func checkC14(c Case) *Failure {
	f, _ := compareQueryWithRef("C14", c, nil)
	return f
}

func runC14(r *Run) {
	r.Rule("every array of length 0..4 over {null,1,\"a\",[2],{\"a\":3}} (781) plus non-array items and nested arrays x every single subscript, every range, every list of two (three in thorough) subscripts over bounds {-2..6,-0.5,0.5,1.9,last,last-1,last+1,last-5}, nested subscripts, and non-number / non-singleton / out-of-int32 subscripts x {lax,strict} x {float64,json.Number} x {verbose,silent}; oracle: slice arithmetic written from the statement (reference model); non-trivial = items or an error expected")
	docs := c14Docs()
	paths := c14Paths(r.Thorough())
	r.Bound("documents", len(docs))
	r.Bound("paths", len(paths))
	refSweep(r, "subscripts-vs-slice-arithmetic", paths, docs, cfgsNumSilent())
}
