package main

import (
	"fmt"
	"strings"
)

// C14 — array subscripts select by position, with last, ranges and lists.

func c14Docs() []docEntry {
	elems := []any{nil, float64(1), "a", []any{float64(2)}, map[string]any{"a": float64(3)}}
	var vals []any
	var rec func(prefix []any, n int)
	rec = func(prefix []any, n int) {
		if n == 0 {
			vals = append(vals, append([]any{}, prefix...))
			return
		}
		for _, e := range elems {
			rec(append(prefix, e), n-1)
		}
	}
	for n := 0; n <= 4; n++ {
		rec(nil, n)
	}
	// non-array items
	vals = append(vals, nil, float64(1), "a", map[string]any{"a": float64(3)}, true)
	// nested arrays for nested subscripts
	vals = append(vals, []any{[]any{float64(0), float64(1)}, []any{float64(1), float64(0), float64(2)}, float64(1)},
		[]any{float64(2), float64(0), []any{float64(5), float64(1)}})
	return makeDocs(vals)
}

func c14Bounds() []*Expr {
	b := []*Expr{}
	for i := int64(-2); i <= 6; i++ {
		b = append(b, eInt(i))
	}
	b = append(b, eNum(-0.5), eNum(0.5), eNum(1.9), eLast(), lastMinus(1), lastPlus(1), lastMinus(5))
	return b
}

func c14Paths(thorough bool) []Path {
	var es []*Expr
	bounds := c14Bounds()
	for _, b := range bounds {
		es = append(es, eRoot(sIndex(sub1(b))))
	}
	for _, a := range bounds {
		for _, b := range bounds {
			es = append(es, eRoot(sIndex(subR(a, b))))
		}
	}
	reduced := []*Expr{eInt(-1), eInt(0), eInt(1), eInt(3), eLast()}
	var subs []Sub
	for _, a := range reduced {
		subs = append(subs, sub1(a))
	}
	for _, a := range reduced {
		for _, b := range reduced {
			subs = append(subs, subR(a, b))
		}
	}
	for _, s1 := range subs {
		for _, s2 := range subs {
			es = append(es, eRoot(sIndex(s1, s2)))
		}
	}
	if thorough {
		small := []Sub{sub1(eInt(0)), sub1(eInt(1)), sub1(eLast()), sub1(eInt(4)), subR(eInt(0), eInt(1)), subR(eInt(1), eLast()), subR(eInt(2), eInt(1))}
		for _, s1 := range small {
			for _, s2 := range small {
				for _, s3 := range small {
					es = append(es, eRoot(sIndex(s1, s2, s3)))
				}
			}
		}
	}
	// nested subscripts
	nested := []*Expr{
		eRoot(sIndex(sub1(eRoot(sIndex(sub1(eInt(0))))))),
		eRoot(sIndex(sub1(eRoot(sIndex(sub1(eInt(1))))))),
		eRoot(sIndex(sub1(eLast())), sIndex(sub1(eLast()))),
		eRoot(sIndex(sub1(eInt(0))), sIndex(sub1(eLast()))),
		eRoot(sIndex(sub1(eArith("-", eRoot(sIndex(sub1(eLast())), sIndex(sub1(eLast()))), eInt(1))))),
		eRoot(sIndex(sub1(eRoot(sIndex(sub1(eLast())), sIndex(sub1(eInt(0))))), sub1(eLast()))),
		eRoot(sIndex(subR(eRoot(sIndex(sub1(eInt(0)))), eLast()))),
		eRoot(sIndex(sub1(eRoot(sIndex(sub1(eInt(0))), sIndex(sub1(eLast())))), sub1(eLast()))),
		eRoot(sIndex(sub1(eRoot(sIndex(sub1(eLast())), sIndex(sub1(eInt(1))))), subR(eInt(0), eLast()))),
		eRoot(sIndex(sub1(eRoot(sIndex(sub1(eInt(2))), sIndex(sub1(eLast())))), sub1(lastMinus(1)))),
	}
	es = append(es, nested...)
	// subscripts that are not a single number within int32
	bad := []*Expr{eStr("a"), eNull(), eTrue(), eRoot(sAnyArray()), eInt(2147483648), eInt(-2147483649), eNum(1e10), eNum(-1e10),
		eRoot(sKey("a")), eRoot(sIndex(sub1(eInt(3)))), eNum(2147483647.5), eNum(-2147483648.5), eInt(2147483647), eInt(-2147483648)}
	for _, b := range bad {
		es = append(es, eRoot(sIndex(sub1(b))), eRoot(sIndex(subR(eInt(0), b))), eRoot(sIndex(subR(b, eInt(1)))), eRoot(sIndex(sub1(eInt(0)), sub1(b))))
	}
	return bothModes(es)
}

// c14NestedBounds: a bound that is itself a path with a subscript visiting several elements followed by
// a step that drops some of them (exactly one number may survive, at any position of the visit).
func c14NestedBounds() ([]Path, []docEntry) {
	inner := []Sub{subR(eInt(0), eInt(1)), subR(eInt(0), eLast()), subR(eInt(1), eInt(2)), sub1(eInt(0)), sub1(eInt(2))}
	lists := [][]Sub{{sub1(eInt(0)), sub1(eInt(1))}, {sub1(eInt(1)), sub1(eInt(0))}, {sub1(eInt(0)), sub1(eInt(2))}, {sub1(eInt(2)), subR(eInt(0), eInt(1))}}
	var idx []*Expr // index steps
	for _, s := range inner {
		idx = append(idx, sIndex(s))
	}
	for _, l := range lists {
		idx = append(idx, sIndex(l...))
	}
	var bounds []*Expr
	for _, ix := range idx {
		for _, op := range []string{"==", ">", "<"} {
			for k := int64(0); k <= 2; k++ {
				bounds = append(bounds, eRoot(ix, sFilter(eCmp(op, eCur(), eInt(k)))))
			}
		}
		bounds = append(bounds, eRoot(ix, sKey("a")), eRoot(ix, sFilter(eExists(eCur(sKey("a")))), sKey("a")), eRoot(ix, sAnyArray()), eRoot(ix, sIndex(sub1(eInt(0)))))
	}
	var es []*Expr
	for _, b := range bounds {
		es = append(es, eRoot(sIndex(sub1(b))), eRoot(sIndex(subR(eInt(0), b))), eRoot(sIndex(subR(b, eLast()))), eRoot(sIndex(sub1(eInt(0)), sub1(b))))
	}
	var vals []any
	nums := []any{float64(0), float64(1), float64(2)}
	for _, a := range nums {
		for _, b := range nums {
			for _, c := range nums {
				vals = append(vals, []any{a, b, c})
			}
			vals = append(vals, []any{a, b})
		}
	}
	objs := []any{map[string]any{"a": float64(1)}, map[string]any{"z": float64(0)}, float64(2), []any{float64(1)}, map[string]any{"a": float64(0)}}
	for _, a := range objs {
		for _, b := range objs {
			for _, c := range objs {
				vals = append(vals, []any{a, b, c})
			}
		}
	}
	return bothModes(es), makeDocs(vals)
}

func checkC14(c Case) *Failure {
	if c.Rule == "first-and-exists-evaluate-every-subscript" {
		return c14Entry(c)
	}
	f, _ := compareQueryWithRef("C14", c, nil)
	return f
}

// c14Entry: First and Exists see the same subscript list as Query: when Query fails, First fails in
// the same way (every subscript is evaluated, also after the first selected element); when Query
// succeeds, First is its first item and Exists says whether there is one.
func c14Entry(c Case) *Failure {
	p, err, pan := parseCached(c.Path)
	if err != nil || pan != "" {
		return &Failure{Sig: "C14/parse", Expected: "parses", Observed: fmt.Sprint(err, pan)}
	}
	doc := mustDoc(c.Doc, "float64")
	q, f, e := implQuery(p, doc, runCfg{}), implFirst(p, doc, runCfg{}), implExists(p, doc, runCfg{})
	mode := "lax"
	if strings.HasPrefix(c.Path, "strict ") {
		mode = "strict"
	}
	if f.Class != q.Class {
		return &Failure{Sig: "C14/first-differs-from-query/" + mode, Expected: "First like Query: " + q.String(), Observed: f.String()}
	}
	if q.Class == "ok" {
		if len(q.Items) == 0 && f.Items[0] != nil || len(q.Items) > 0 && canonNoID(f.Items[0]) != canonNoID(q.Items[0]) {
			return &Failure{Sig: "C14/first-differs-from-query/item/" + mode, Expected: q.String(), Observed: f.String()}
		}
		if e.Class != "ok" || e.Bool != (len(q.Items) > 0) {
			return &Failure{Sig: "C14/exists-differs-from-query/" + mode, Expected: fmt.Sprint(len(q.Items) > 0, " (Query: ", q.String(), ")"), Observed: e.String()}
		}
	} else if mode == "strict" && e.Class == "ok" {
		return &Failure{Sig: "C14/exists-hides-subscript-error/strict", Expected: "an error like Query: " + q.String(), Observed: e.String()}
	}
	return nil
}

func runC14(r *Run) {
	r.Rule("every array of length 0..4 over {null,1,\"a\",[2],{\"a\":3}} (781) plus non-array items and nested arrays x every single subscript, every range, every list of two (three in thorough) subscripts over bounds {-2..6,-0.5,0.5,1.9,last,last-1,last+1,last-5}, nested subscripts, and non-number / non-singleton / out-of-int32 subscripts x {lax,strict}; bounds that are paths `$[r] ? (@ op k)`, `$[r].a`, `$[r][*]`, `$[r][0]` with r a range or list visiting several elements (9 shapes x 3 operators x k in 0..2), as single subscript, range start, range end and list member, over every array of 2-3 numbers in 0..2 and every triple over 5 element kinds x {lax,strict} x {float64,json.Number} x {verbose,silent}; oracle: slice arithmetic written from the statement (reference model); First and Exists on the same paths evaluate every subscript like Query; non-trivial = items or an error expected")
	docs := c14Docs()
	paths := c14Paths(r.Thorough())
	r.Bound("documents", len(docs))
	r.Bound("paths", len(paths))
	refSweep(r, "subscripts-vs-slice-arithmetic", paths, docs, cfgsNumSilent())
	// the subscript lists through First and Exists (one fifth of the documents)
	r.ParFor(len(paths), func(i int) {
		text := paths[i].String()
		r.Note(i, text)
		for di := i % 5; di < len(docs); di += 5 {
			c := Case{Rule: "first-and-exists-evaluate-every-subscript", Path: text, Doc: docs[di].text, Num: "float64"}
			r.evals.Add(1)
			r.traces.Add(3)
			if f := c14Entry(c); f != nil {
				r.Fail(c, f)
			}
		}
	})
	lp := bothModes(lastAfterFailingSubscript())
	r.Bound("last_after_failing_subscript_paths", len(lp))
	refSweep(r, "last-after-failing-nested-subscript", lp, makeDocs([]any{mustDoc(`[[1,2],5,6,7]`, "float64"), mustDoc(`[[1,2,3],5]`, "float64"), mustDoc(`[[0],5,6]`, "float64"), mustDoc(`[[],1]`, "float64"), mustDoc(`[5,6]`, "float64")}), cfgsNumSilent())
	np, nd := c14NestedBounds()
	r.Bound("nested_bound_paths", len(np))
	r.Bound("nested_bound_documents", len(nd))
	refSweep(r, "nested-subscript-bounds", np, nd, cfgsNumSilent())
}
