package main

// Walks the implementation's tree through its exported accessors only.

import (
	"fmt"
	"strconv"
	"strings"

	"github.com/theory/sqljson/path"
	"github.com/theory/sqljson/path/ast"
)

// astDump renders the tree in a spelling-independent structural form: node
// kind, operator, literal value, bounds, flags, and the chain.
func astDump(p *path.Path) string {
	var b strings.Builder
	if p.IsLax() {
		b.WriteString("lax ")
	} else {
		b.WriteString("strict ")
	}
	if p.IsPredicate() {
		b.WriteString("pred ")
	}
	dumpNode(&b, p.Root())
	return b.String()
}

func astCount(p *path.Path) int {
	n := 0
	var walk func(ast.Node)
	walk = func(nd ast.Node) {
		if nd == nil || isNilNode(nd) {
			return
		}
		n++
		switch x := nd.(type) {
		case *ast.BinaryNode:
			walk(x.Left())
			walk(x.Right())
		case *ast.UnaryNode:
			walk(x.Operand())
		case *ast.RegexNode:
			walk(x.Operand())
		case *ast.ArrayIndexNode:
			for _, s := range x.Subscripts() {
				walk(s)
			}
		}
		walk(nd.Next())
	}
	walk(p.Root())
	return n
}

func isNilNode(n ast.Node) bool {
	switch x := n.(type) {
	case nil:
		return true
	case *ast.BinaryNode:
		return x == nil
	case *ast.UnaryNode:
		return x == nil
	case *ast.IntegerNode:
		return x == nil
	case *ast.StringNode:
		return x == nil
	case *ast.NumericNode:
		return x == nil
	case *ast.ConstNode:
		return x == nil
	case *ast.MethodNode:
		return x == nil
	case *ast.KeyNode:
		return x == nil
	case *ast.VariableNode:
		return x == nil
	case *ast.AnyNode:
		return x == nil
	case *ast.RegexNode:
		return x == nil
	case *ast.ArrayIndexNode:
		return x == nil
	}
	return false
}

func dumpNode(b *strings.Builder, n ast.Node) {
	if n == nil || isNilNode(n) {
		b.WriteString("nil")
		return
	}
	switch x := n.(type) {
	case *ast.ConstNode:
		fmt.Fprintf(b, "Const(%d)", int(x.Const()))
	case *ast.MethodNode:
		fmt.Fprintf(b, "Method(%d)", int(x.Name()))
	case *ast.StringNode:
		fmt.Fprintf(b, "Str(%s)", strconv.QuoteToASCII(x.Text()))
	case *ast.VariableNode:
		fmt.Fprintf(b, "Var(%s)", strconv.QuoteToASCII(x.Text()))
	case *ast.KeyNode:
		fmt.Fprintf(b, "Key(%s)", strconv.QuoteToASCII(x.Text()))
	case *ast.NumericNode:
		fmt.Fprintf(b, "Num(%s)", strconv.FormatFloat(x.Float(), 'g', -1, 64))
	case *ast.IntegerNode:
		fmt.Fprintf(b, "Int(%d)", x.Int())
	case *ast.AnyNode:
		fmt.Fprintf(b, "Any(%d,%d)", x.First(), x.Last())
	case *ast.BinaryNode:
		fmt.Fprintf(b, "Bin(%d,", int(x.Operator()))
		dumpNode(b, x.Left())
		b.WriteByte(',')
		dumpNode(b, x.Right())
		b.WriteByte(')')
	case *ast.UnaryNode:
		fmt.Fprintf(b, "Un(%d,", int(x.Operator()))
		dumpNode(b, x.Operand())
		b.WriteByte(')')
	case *ast.RegexNode:
		b.WriteString("Regex(")
		dumpNode(b, x.Operand())
		re := "<panic>"
		func() {
			defer func() { _ = recover() }()
			re = x.Regexp().String()
		}()
		fmt.Fprintf(b, ",%s)", strconv.QuoteToASCII(re))
	case *ast.ArrayIndexNode:
		b.WriteString("Index(")
		for i, s := range x.Subscripts() {
			if i > 0 {
				b.WriteByte(',')
			}
			dumpNode(b, s)
		}
		b.WriteByte(')')
	default:
		fmt.Fprintf(b, "?%T", n)
	}
	if next := n.Next(); next != nil && !isNilNode(next) {
		b.WriteString(" -> ")
		dumpNode(b, next)
	}
}
