package main

import "fmt"

// C07 — lax absorbs structural mismatches, strict reports each one.

func c07Alphabet() []*Expr {
	a := []*Expr{
		sKey("a"), sKey("b"), sAnyKey(), sAnyArray(), sAny(0, -1), sAny(1, 1),
		sIndex(sub1(eInt(0))), sIndex(sub1(eInt(1))), sIndex(sub1(eInt(2))), sIndex(sub1(eLast())), sIndex(sub1(lastMinus(1))),
		sIndex(subR(eInt(0), eInt(1))), sIndex(subR(eInt(1), eLast())), sIndex(subR(eInt(0), eLast())),
		sIndex(sub1(eInt(0)), sub1(eInt(1))), sIndex(sub1(eInt(1)), sub1(eInt(0))), sIndex(sub1(eInt(0)), sub1(eInt(2))),
		sIndex(sub1(eInt(0)), sub1(eInt(1)), sub1(eInt(2))), sIndex(sub1(eInt(2)), sub1(eInt(1)), sub1(eInt(0))),
		sIndex(sub1(eLast()), sub1(eInt(0))),
		sFilter(eCmp("==", eCur(sKey("a")), eInt(1))),
		sFilter(eCmp("==", eCur(), eInt(1))),
		sFilter(eExists(eCur(sKey("a")))),
		sFilter(eCmp("==", eCur(sIndex(sub1(eInt(0)))), eInt(1))),
		sFilter(eCmp("==", eCur(sAnyKey()), eInt(1))),
		sFilter(eCmp("==", eCur(sAnyArray()), eNull())),
		sFilter(eCmp("!=", eCur(sIndex(sub1(eInt(1)))), eNull())),
		// a structural mismatch at one position of a subscript list inside a condition makes it unknown
		sFilter(eCmp("==", eCur(sIndex(sub1(eInt(0)), sub1(eInt(1))), sKey("a")), eInt(1))),
		sFilter(eCmp("==", eCur(sIndex(sub1(eInt(1)), sub1(eInt(0))), sKey("a")), eInt(1))),
		sFilter(eExists(eCur(sIndex(subR(eInt(0), eInt(1))), sKey("a")))),
	}
	return a
}

func checkC07(c Case) *Failure {
	f, _ := compareQueryWithRef("C07", c, nil)
	return f
}

func runC07(r *Run) {
	r.Rule("every chain of <= L steps over the accessor/filter alphabet (.a .b .* [*] .** .**{1} [i] [i to j] [i,j] [i,j,k] with literal and last-relative bounds, filters over them; and chains of <= 2 over subscripts with fractional / negative bounds -0.5 -0.9 0.5 -1 -1.5 1.5 0.999 last-0.5 last-1.5 0.5-1 as single subscript, range start, range end and list member; and conditions (==, !=, exists, !) over operands @[r].a, @.a[r].a, @[r] ? (exists(@.a)).a, @[r][*], @[r].* for 6 subscript lists/ranges r under 4 prefixes x 144 documents placing 6 element kinds at every position; 18 paths over 7 large documents: arrays of 2,200-3,000 elements, an object of 2,500 members, nesting 1,200-1,500 deep) x every JSON document with <= K nodes over scalars {null,1}, keys {a,b} x {lax,strict} x {float64,json.Number}; oracle: reference interpreter (lax: no error and same items; strict: suppressible structural error exactly when the reference's complete evaluation meets a mismatch, else same items); non-trivial = reference yields items or an error")
	alpha := c07Alphabet()
	L, K := 3, 4
	if r.Thorough() {
		L, K = 3, 5
	}
	r.Bound("max_chain_length", L)
	r.Bound("max_doc_nodes", K)
	r.Bound("step_alphabet", len(alpha))
	docs := makeDocs(Docs(K, []any{nil, float64(1)}, stdKeys))
	paths := bothModes(chainsOver(eRoot(), alpha, L, false))
	r.Bound("paths", len(paths))
	r.Bound("documents", len(docs))
	refSweep(r, "accessor-filter-vs-reference", paths, docs, cfgsNum())
	// literal bounds that are fractional or negative (truncation toward zero decides between "element 0"
	// and "out of range"): chains of <= 2 steps, each subscript also after and before .a / [*]
	fr := []*Expr{sKey("a"), sAnyArray()}
	for _, b := range []*Expr{eNum(-0.5), eNum(-0.9), eNum(0.5), eNum(-1), eNum(-1.5), eNum(1.5), eNum(0.999), eArith("-", eLast(), eNum(0.5)), eArith("-", eLast(), eNum(1.5)), eArith("-", eNum(0.5), eInt(1))} {
		fr = append(fr, sIndex(sub1(b)), sIndex(subR(b, eInt(1))), sIndex(subR(eInt(0), b)), sIndex(sub1(eInt(1)), sub1(b)))
	}
	fpaths := bothModes(chainsOver(eRoot(), fr, 2, false))
	r.Bound("fractional_bound_paths", len(fpaths))
	refSweep(r, "fractional-and-negative-bounds", fpaths, docs, cfgsNum())
	// conditions whose operand selects several elements by subscript and then applies a step that some of
	// them do not support, the offending element at every position
	var ops []*Expr
	for _, ix := range []*Expr{sIndex(sub1(eInt(0)), sub1(eInt(1))), sIndex(sub1(eInt(1)), sub1(eInt(0))), sIndex(subR(eInt(0), eInt(1))), sIndex(subR(eInt(0), eLast())),
		sIndex(subR(lastMinus(1), eLast())), sIndex(sub1(eInt(0)), subR(eInt(1), eLast()))} {
		ops = append(ops, eCur(ix, sKey("a")), eCur(sKey("a"), ix, sKey("a")), eCur(ix, sFilter(eExists(eCur(sKey("a")))), sKey("a")), eCur(ix, sAnyArray()), eCur(ix, sAnyKey()))
	}
	var ocs []*Expr
	for _, o := range ops {
		ocs = append(ocs, eCmp("==", o, eInt(1)), eCmp("==", eInt(1), o), eExists(o), eCmp("!=", o, eNull()), eNot(eCmp("==", o, eInt(1))))
	}
	var opaths []*Expr
	for _, c := range ocs {
		opaths = append(opaths, eRoot(sFilter(c)), eRoot(sAnyArray(), sFilter(c)), eRoot(sKey("a"), sFilter(c)), eRoot(sAny(0, -1), sFilter(c)))
	}
	var ovals []any
	elems := []any{map[string]any{"a": float64(1)}, map[string]any{}, float64(1), map[string]any{"a": nil}, []any{map[string]any{"a": float64(1)}}, map[string]any{"b": float64(1)}}
	for _, a := range elems {
		for _, b := range elems {
			ovals = append(ovals, []any{[]any{a, b}}, map[string]any{"a": []any{a, b}}, []any{[]any{a, b, a}}, map[string]any{"a": []any{[]any{b, a}}})
		}
	}
	r.Bound("subscripted_operand_paths", 2*len(opaths))
	r.Bound("subscripted_operand_documents", len(ovals))
	refSweep(r, "subscripted-operands-in-conditions", bothModes(opaths), makeDocs(ovals), cfgsNum())
	// large documents: a step executed thousands of times in one call, deep and wide values (nothing
	// may accumulate per executed step)
	var big []any
	ints, rows, pairs := make([]any, 3000), make([]any, 2500), make([]any, 2200)
	wide := map[string]any{}
	for i := range ints {
		ints[i] = float64(i)
	}
	for i := range rows {
		rows[i] = map[string]any{"a": float64(i), "b": []any{float64(i)}}
		wide[fmt.Sprint("k", i)] = float64(i)
	}
	for i := range pairs {
		pairs[i] = []any{float64(i), "x"}
	}
	var deep any = float64(1)
	for i := 0; i < 1500; i++ {
		deep = []any{deep}
	}
	var deepObj any = float64(1)
	for i := 0; i < 1200; i++ {
		deepObj = map[string]any{"a": deepObj}
	}
	big = append(big, ints, rows, pairs, wide, deep, deepObj, map[string]any{"rows": rows})
	idx := func(e *Expr) *Expr { return sIndex(sub1(e)) }
	bigPaths := []*Expr{eRoot(sAnyArray(), idx(eInt(0))), eRoot(sAnyArray(), idx(eLast())), eRoot(sAnyArray(), sFilter(eCmp(">=", eCur(idx(eInt(0))), eInt(0)))), eRoot(sIndex(subR(eInt(0), eLast()))),
		eRoot(sAnyArray(), sKey("a")), eRoot(sAnyArray(), sKey("b"), idx(eInt(0))), eRoot(sKey("rows"), idx(eInt(0))), eRoot(sKey("rows"), sKey("b"), idx(eLast())), eRoot(sAnyKey()), eRoot(sAny(0, -1)),
		eRoot(sAny(1400, -1)), eRoot(sAny(-1, -1)), eRoot(sAnyArray(), sFilter(eCmp(">", eCur(sKey("a")), eInt(2400)))), eRoot(sAnyArray(), sFilter(eExists(eCur(sKey("b"), idx(eInt(0)))))),
		eRoot(sAnyArray(), idx(eInt(1)), sFilter(eCmp("==", eCur(), eStr("x")))), eRoot(sAnyArray(), sAnyArray(), idx(eInt(0))), eRoot(sAny(0, -1), sKey("a")), eRoot(sAny(0, -1), idx(eInt(0)))}
	r.Bound("large_documents", len(big))
	refSweep(r, "large-documents", bothModes(bigPaths), makeDocs(big), []sweepCfg{{Num: "float64"}})
	if r.Thorough() {
		// chains of four steps on the smaller document universe
		docs3 := makeDocs(Docs(4, []any{nil, float64(1)}, stdKeys))
		var four []*Expr
		for _, e := range chainsOver(eRoot(), alpha, 4, false) {
			if len(e.Steps) == 4 {
				four = append(four, e)
			}
		}
		r.Bound("paths_len4", 2*len(four))
		refSweep(r, "accessor-filter-vs-reference/len4", bothModes(four), docs3, []sweepCfg{{Num: "float64"}})
	}
}
