package main

// Runner shared by all checks: tiers, sharded exhaustive enumeration, counters,
// violation recording with replay files, known-findings matching, evidence.

import (
	"bufio"
	"crypto/sha256"
	"encoding/hex"
	"encoding/json"
	"fmt"
	"os"
	"path/filepath"
	"runtime"
	"sort"
	"strconv"
	"strings"
	"sync"
	"sync/atomic"
	"time"
)

const verifRoot = "/verif"

// Case is the replayable description of one explored element. Every check
// decides a Case with a pure function (checkCase) used both by the explorer and
// by --replay, so a replay needs no explorer.
type Case struct {
	Property string            `json:"property"`
	Rule     string            `json:"rule"`            // which oracle clause
	Path     string            `json:"path,omitempty"`  // jsonpath text
	Path2    string            `json:"path2,omitempty"` // second path for relational oracles
	Doc      string            `json:"doc,omitempty"`   // JSON text of the document
	Num      string            `json:"num,omitempty"`   // float64 | number  (decoding of JSON numbers)
	Vars     map[string]string `json:"vars,omitempty"`  // name -> tagged value text (see decodeTagged)
	Silent   bool              `json:"silent,omitempty"`
	TZ       bool              `json:"tz,omitempty"`
	Zone     string            `json:"zone,omitempty"`  // context time zone name or fixed offset "+05:30"
	Entry    string            `json:"entry,omitempty"` // query|first|exists|match|existsormatch
	K        int               `json:"k,omitempty"`     // poll index / generic integer
	Extra    map[string]string `json:"extra,omitempty"` // anything else the check needs
}

// Failure is a violated oracle clause on one case.
type Failure struct {
	Sig      string // stable, narrow signature: rule + what distinguishes this failure class
	Expected string
	Observed string
}

type violation struct {
	Case     Case   `json:"case"`
	Sig      string `json:"sig"`
	Expected string `json:"expected"`
	Observed string `json:"observed"`
	Count    int64  `json:"occurrences_in_run"`
	size     int
}

type known struct {
	property string
	sig      string
	text     string
}

// Run is the state of one check execution.
type Run struct {
	ID    string
	Tier  string
	Seed  int64
	Level string

	start      time.Time
	deadline   time.Time
	stopped    bool
	parforCall atomic.Int64

	evals       atomic.Int64
	states      atomic.Int64
	transitions atomic.Int64
	traces      atomic.Int64
	declined    atomic.Int64

	mu         sync.Mutex
	distinct   [64]map[uint64]struct{}
	dmu        [64]sync.Mutex
	distinctN  atomic.Int64
	outcomes   map[string]int64
	samples    []any
	viol       map[string]*violation
	knownHits  map[string]int64
	caps       []string
	bounds     map[string]any
	extra      map[string]any
	rule       string
	assume     []string
	exhaustive bool
	knowns     []known
}

const distinctCap = 40_000_000

func newRun(id, tier string) *Run {
	r := &Run{ID: id, Tier: tier, start: time.Now(), exhaustive: true,
		outcomes: map[string]int64{}, viol: map[string]*violation{}, knownHits: map[string]int64{},
		bounds: map[string]any{}, extra: map[string]any{}}
	for i := range r.distinct {
		r.distinct[i] = map[uint64]struct{}{}
	}
	if s := os.Getenv("VERIF_SEED"); s != "" {
		r.Seed, _ = strconv.ParseInt(s, 10, 64)
	}
	budget := 100 * time.Second
	if tier == "thorough" {
		budget = 25 * time.Minute
	}
	if s := os.Getenv("VERIF_BUDGET_S"); s != "" {
		if n, err := strconv.Atoi(s); err == nil {
			budget = time.Duration(n) * time.Second
		}
	}
	r.deadline = r.start.Add(budget)
	r.knowns = loadKnown(id)
	return r
}

func (r *Run) Thorough() bool { return r.Tier == "thorough" }

// Expired reports whether the internal deadline passed. A check that stops
// because of it records a cap: the run then ends with exit 0 and exhaustive:false.
func (r *Run) Expired() bool { return time.Now().After(r.deadline) }

func (r *Run) Cap(what string) {
	r.mu.Lock()
	defer r.mu.Unlock()
	r.exhaustive = false
	for _, c := range r.caps {
		if c == what {
			return
		}
	}
	r.caps = append(r.caps, what)
}

func (r *Run) Bound(k string, v any) { r.mu.Lock(); r.bounds[k] = v; r.mu.Unlock() }
func (r *Run) Extra(k string, v any) { r.mu.Lock(); r.extra[k] = v; r.mu.Unlock() }
func (r *Run) Rule(s string)         { r.rule = s }
func (r *Run) Assume(s ...string)    { r.assume = append(r.assume, s...) }

func fnv64(s string) uint64 {
	h := uint64(14695981039346656037)
	for i := 0; i < len(s); i++ {
		h ^= uint64(s[i])
		h *= 1099511628211
	}
	return h
}

// Distinct records key as a distinct non-trivial case.
func (r *Run) Distinct(key string) {
	if r.distinctN.Load() >= distinctCap {
		return
	}
	h := fnv64(key)
	i := h >> 58
	r.dmu[i].Lock()
	if _, ok := r.distinct[i][h]; !ok {
		r.distinct[i][h] = struct{}{}
		r.distinctN.Add(1)
	}
	r.dmu[i].Unlock()
}

// Outcome counts one observed outcome class (for the vacuity report).
func (r *Run) Outcome(class string) {
	r.mu.Lock()
	r.outcomes[class]++
	r.mu.Unlock()
}

func (r *Run) Sample(v any) {
	r.mu.Lock()
	if len(r.samples) < 12 {
		r.samples = append(r.samples, v)
	}
	r.mu.Unlock()
}

func caseSize(c Case) int {
	n := len(c.Path) + len(c.Path2) + len(c.Doc) + c.K
	for k, v := range c.Vars {
		n += len(k) + len(v)
	}
	for k, v := range c.Extra {
		n += len(k) + len(v)
	}
	return n
}

// Fail records a failure; the smallest witness per signature is kept.
func (r *Run) Fail(c Case, f *Failure) {
	c.Property = r.ID
	r.mu.Lock()
	defer r.mu.Unlock()
	if r.stopped {
		return
	}
	for _, k := range r.knowns {
		if k.sig == f.Sig {
			r.knownHits[f.Sig]++
			return
		}
	}
	sz := caseSize(c)
	v, ok := r.viol[f.Sig]
	if !ok {
		r.viol[f.Sig] = &violation{Case: c, Sig: f.Sig, Expected: f.Expected, Observed: f.Observed, Count: 1, size: sz}
		if os.Getenv("VERIF_FAIL_FAST") != "" {
			// mutation analysis only (tools/mutants.sh): the first violation ends the run; the witness is
			// not minimised and the evidence of such a run is not kept
			r.stopped = true
			fmt.Printf("VIOLATION property=%s replay=-\n  sig=%s\n  case=%s\n  expected: %s\n  observed: %s\n", r.ID, f.Sig, mustJSON(c), f.Expected, f.Observed)
			os.Exit(1)
		}
		return
	}
	v.Count++
	if sz < v.size || (sz == v.size && fmt.Sprint(c) < fmt.Sprint(v.Case)) {
		v.Case, v.Expected, v.Observed, v.size = c, f.Expected, f.Observed, sz
	}
}

// ParFor runs f(i) for i in [0,n) on all cores; index-sharded, so the explored
// set is the same on every run. f returns false to stop its worker early (cap).
func (r *Run) ParFor(n int, f func(i int)) {
	call := r.parforCall.Add(1)
	workers := runtime.GOMAXPROCS(0)
	if workers > n {
		workers = n
	}
	if workers < 1 {
		workers = 1
	}
	var next atomic.Int64
	var wg sync.WaitGroup
	for w := 0; w < workers; w++ {
		wg.Add(1)
		go func() {
			defer wg.Done()
			for {
				i := int(next.Add(1) - 1)
				if i >= n {
					return
				}
				noteSlot(i, fmt.Sprintf("parfor#%d index=%d", call, i))
				f(i)
				clearSlot(i)
			}
		}()
	}
	wg.Wait()
}

func loadKnown(id string) []known {
	f, err := os.Open(filepath.Join(verifRoot, "KNOWN_FINDINGS.txt"))
	if err != nil {
		return nil
	}
	defer f.Close()
	var out []known
	sc := bufio.NewScanner(f)
	sc.Buffer(make([]byte, 1<<20), 1<<20)
	for sc.Scan() {
		line := strings.TrimSpace(sc.Text())
		if !strings.HasPrefix(line, "known:") {
			continue
		}
		// known: property=C13 sig=<sig without spaces> :: text
		rest := strings.TrimSpace(strings.TrimPrefix(line, "known:"))
		text := ""
		if i := strings.Index(rest, " :: "); i >= 0 {
			text = rest[i+4:]
			rest = rest[:i]
		}
		k := known{text: text}
		for _, f := range strings.Fields(rest) {
			if strings.HasPrefix(f, "property=") {
				k.property = f[len("property="):]
			}
			if strings.HasPrefix(f, "sig=") {
				k.sig = f[len("sig="):]
			}
		}
		if k.property == id && k.sig != "" {
			out = append(out, k)
		}
	}
	return out
}

func shortHash(s string) string {
	h := sha256.Sum256([]byte(s))
	return hex.EncodeToString(h[:6])
}

// Finish writes evidence and replay files, prints the verdict lines and returns
// the process exit code.
func (r *Run) Finish() int {
	wall := time.Since(r.start).Seconds()
	evdir := filepath.Join(verifRoot, "evidence")
	if d := os.Getenv("VERIF_EVIDENCE_DIR"); d != "" {
		evdir = d // trial runs against seeded changes must not overwrite the committed evidence
	}
	os.MkdirAll(evdir, 0o755)
	repdir := filepath.Join(verifRoot, "replays")
	if d := os.Getenv("VERIF_REPLAY_DIR"); d != "" {
		repdir = d // trial runs against seeded changes keep their replay files apart
	}
	os.MkdirAll(repdir, 0o755)

	sigs := make([]string, 0, len(r.viol))
	for s := range r.viol {
		sigs = append(sigs, s)
	}
	sort.Slice(sigs, func(i, j int) bool {
		a, b := r.viol[sigs[i]], r.viol[sigs[j]]
		if a.size != b.size {
			return a.size < b.size
		}
		return sigs[i] < sigs[j]
	})
	var vlist []map[string]any
	for n, s := range sigs {
		v := r.viol[s]
		name := fmt.Sprintf("%s-%s.json", r.ID, shortHash(s))
		p := filepath.Join(repdir, name)
		b, _ := json.MarshalIndent(v, "", " ")
		_ = os.WriteFile(p, append(b, '\n'), 0o644)
		if n < 20 {
			fmt.Printf("VIOLATION property=%s replay=%s\n", r.ID, p)
			fmt.Printf("  sig=%s\n  case=%s\n  expected: %s\n  observed: %s\n  occurrences=%d\n", s, mustJSON(v.Case), v.Expected, v.Observed, v.Count)
		}
		vlist = append(vlist, map[string]any{"sig": s, "replay": p, "occurrences": v.Count})
	}
	var khits []map[string]any
	for _, k := range r.knowns {
		n := r.knownHits[k.sig]
		if n > 0 {
			fmt.Printf("KNOWN-FINDING: property=%s sig=%s occurrences=%d %s\n", r.ID, k.sig, n, k.text)
		}
		khits = append(khits, map[string]any{"sig": k.sig, "occurrences": n})
	}

	cov := map[string]any{
		"evaluations":                   r.evals.Load(),
		"distinct_nontrivial":           r.distinctN.Load(),
		"rule":                          r.rule,
		"samples":                       r.samples,
		"states":                        r.states.Load(),
		"transitions":                   r.transitions.Load(),
		"traces_validated_against_impl": r.traces.Load(),
		"exhaustive":                    r.exhaustive,
		"bounds":                        r.bounds,
		"caps_hit":                      r.caps,
		"oracle_declined":               r.declined.Load(),
		"distinct_outcomes":             len(r.outcomes),
		"outcome_histogram":             topOutcomes(r.outcomes, 40),
		"known_findings":                khits,
		"violation_list":                vlist,
	}
	if r.distinctN.Load() >= distinctCap {
		cov["distinct_nontrivial_note"] = "counting stopped at cap; true number is larger"
	}
	for k, v := range r.extra {
		cov[k] = v
	}
	if r.samples == nil {
		cov["samples"] = []any{}
	}
	ev := map[string]any{
		"property_id": r.ID,
		"tier":        r.Tier,
		"seed":        r.Seed,
		"level":       r.Level,
		"coverage":    cov,
		"assumptions": append([]string{"the harness module /verif/mc is built against /repo's current working tree (module replace) with -tags verif"}, r.assume...),
		"wall_s":      wall,
		"violations":  len(r.viol),
	}
	b, _ := json.MarshalIndent(ev, "", " ")
	evp := filepath.Join(evdir, r.ID+".json")
	if err := os.WriteFile(evp, append(b, '\n'), 0o644); err != nil {
		fmt.Fprintln(os.Stderr, "cannot write evidence:", err)
		return 2
	}
	fmt.Printf("%s tier=%s evaluations=%d distinct_nontrivial=%d states=%d transitions=%d traces=%d outcomes=%d declined=%d exhaustive=%v caps=%v violations=%d wall=%.1fs\n",
		r.ID, r.Tier, r.evals.Load(), r.distinctN.Load(), r.states.Load(), r.transitions.Load(), r.traces.Load(), len(r.outcomes), r.declined.Load(), r.exhaustive, r.caps, len(r.viol), wall)
	if len(r.viol) > 0 {
		return 1
	}
	return 0
}

func topOutcomes(m map[string]int64, n int) map[string]int64 {
	type kv struct {
		k string
		v int64
	}
	var l []kv
	for k, v := range m {
		l = append(l, kv{k, v})
	}
	sort.Slice(l, func(i, j int) bool {
		if l[i].v != l[j].v {
			return l[i].v > l[j].v
		}
		return l[i].k < l[j].k
	})
	out := map[string]int64{}
	for i, e := range l {
		if i >= n {
			break
		}
		out[e.k] = e.v
	}
	return out
}

func mustJSON(v any) string {
	b, err := json.Marshal(v)
	if err != nil {
		return fmt.Sprintf("%#v", v)
	}
	return string(b)
}
