package main

// C16 — item methods convert within their documented domains and ranges.

import (
	"fmt"
	"github.com/theory/sqljson/path/exec"
	"sort"
	"strconv"
	"strings"
)

func c16Values(thorough bool) []string {
	var out []string
	floats := []string{"0", "-0", "1", "-1", "0.5", "-0.5", "1.5", "-1.5", "2.5", "-2.5", "0.49999999999999994", "1e-07", "5e-324",
		"2147483647", "2147483648", "-2147483648", "-2147483649", "2147483646.5", "2147483647.25", "2147483647.4", "2147483647.5", "2147483647.75",
		"-2147483648.25", "-2147483648.4", "-2147483648.5", "-2147483648.75", "-2147483647.5",
		"9007199254740992", "9007199254740993", "9223372036854774784", "9223372036854775807", "9223372036854775808", "-9223372036854775808", "-9223372036854777856",
		"1e+21", "1e+22", "1e+308", "-1e+308", "123.456", "99.5", "9.99", "0.05", "123456.789", "1e+15", "1e+16", "4503599627370496.5", "0.1", "100"}
	for _, f := range floats {
		out = append(out, "f:"+f)
		n := f
		if v, err := strconv.ParseFloat(f, 64); err == nil {
			n = strconv.FormatFloat(v, 'f', -1, 64)
		}
		out = append(out, "n:"+n, "s:"+n)
	}
	ints := []string{"0", "1", "-1", "2147483647", "2147483648", "-2147483648", "-2147483649", "9007199254740993", "9223372036854775807", "-9223372036854775808"}
	for _, i := range ints {
		// the exact integer spelling in all three carriers (FormatFloat above pads the shortest digits of a double with
		// zeros, so 2^63 would otherwise only appear as ...776000): json.Number and string take the integer route
		out = append(out, "i:"+i, "n:"+i, "s:"+i)
	}
	out = append(out, "i:-9223372036854775807", "n:-9223372036854775807", "n:9223372036854775806", "n:-9223372036854775808.5", "n:9223372036854775807.5")
	out = append(out, "n:1E2", "n:1e2", "n:1.50", "n:2.5e0", "n:9223372036854775808", "n:-9223372036854775809", "n:1e400", "n:-1e400", "n:1e-400", "n:0.0", "n:-0",
		"n:2147483647.5", "n:2147483647.4999999999999999999", "n:0.5000000000000000000000001", "n:1.5", "n:2.5", "n:12345678901234567890")
	strs := []string{"", "abc", " 1", "1 ", "+1", "-1", "0x10", "1e3", "1E3", "1_000", ".5", "5.", "1.5e2", "Infinity", "inf", "-inf", "nan", "NaN", "+Inf",
		"true", "false", "t", "f", "T", "TRUE", "yes", "no", "y", "n", "on", "off", "ON", "1", "0", "2", "tr", "of", "yes ", "nope", "2147483648", "-2147483649",
		"9223372036854775808", "-9223372036854775809", "12.5", "1e400", "1e-400", "00012", "1,5", "１"}
	for _, s := range strs {
		out = append(out, "s:"+s)
	}
	out = append(out, "j:null", "j:true", "j:false", "j:[]", "j:[1,2.5]", `j:["1","x"]`, "j:[[1]]", "j:{}", `j:{"a":1}`, `j:[{"a":1},{"b":2}]`, `j:[1,"2",true,null]`)
	seen := map[string]bool{}
	var uniq []string
	for _, v := range out {
		if !seen[v] {
			seen[v] = true
			uniq = append(uniq, v)
		}
	}
	return uniq
}

func c16MethodPaths() []Path {
	var es []*Expr
	a := func(steps ...*Expr) *Expr { return eVar("a", steps...) }
	for _, m := range []string{"type", "size", "double", "number", "integer", "bigint", "boolean", "string", "abs", "floor", "ceiling", "keyvalue"} {
		es = append(es, a(sMethod(m)), a(sAnyArray(), sMethod(m)))
	}
	for _, ps := range [][2]int64{{1, 0}, {2, 0}, {2, 1}, {3, 1}, {5, 2}, {10, -2}, {1, -1}, {15, 0}, {16, 0}, {17, 2}, {38, 10}, {308, 0}, {309, 0}, {310, 1}, {1000, 0}, {1000, 1000}, {1000, -1000}, {1, 1000}, {1, -1000},
		{2, 2}, {1, 1}, {1, 2}, {3, -1}, {0, 0}, {1001, 0}, {1, 1001}, {1, -1001}, {-1, 0}} {
		p, s := ps[0], ps[1]
		es = append(es, a(sDecimal(&p, &s)))
	}
	for _, p := range []int64{1, 2, 3, 10, 15, 16, 17, 20, 309, 1000, 0, 1001} {
		p := p
		es = append(es, a(sDecimal(&p, nil)))
	}
	es = append(es, a(sDecimal(nil, nil)))
	// datetime inputs to .string() and .type()
	for _, m := range []string{"datetime", "date", "time", "time_tz", "timestamp", "timestamp_tz"} {
		es = append(es, eVar("d", sDT(m, nil), sMethod("type")), eVar("d", sDT(m, nil), sMethod("string")), eVar("d", sDT(m, nil), sMethod("double")), eVar("d", sDT(m, nil), sMethod("size")))
	}
	return bothModes(es)
}

// c16ArgSpelling: two spellings of the same integer arguments give the same result (or, where the
// parser rejects a spelling, nothing to compare).
func c16ArgSpelling(c Case) *Failure {
	p1, e1, pan1 := parseCached(c.Path)
	p2, e2, pan2 := parseCached(c.Path2)
	if e1 != nil || pan1 != "" {
		return &Failure{Sig: "C16/harness/base-spelling-does-not-parse", Expected: "parses", Observed: c.Path}
	}
	if e2 != nil || pan2 != "" {
		return nil
	}
	vars := map[string]any{}
	for k, v := range c.Vars {
		vars[k] = decodeTagged(v, "float64")
	}
	for _, silent := range []bool{false, true} {
		o1, o2 := implQuery(p1, nil, runCfg{vars: vars, silent: silent}), implQuery(p2, nil, runCfg{vars: vars, silent: silent})
		if o1.Class != o2.Class || (o1.Class == "ok" && canonList(o1.Items) != canonList(o2.Items)) {
			return &Failure{Sig: "C16/argument-spelling-changes-the-result", Expected: c.Path + " => " + o1.String(), Observed: c.Path2 + " => " + o2.String()}
		}
	}
	return nil
}

func checkC16(c Case) *Failure {
	switch c.Rule {
	case "argument-spelling":
		return c16ArgSpelling(c)
	case "string-roundtrip":
		return c16StringRoundTrip(c)
	case "keyvalue":
		return c16KeyValue(c)
	case "keyvalue-context":
		return c16KeyValueContext(c)
	case "keyvalue-asked-elsewhere":
		return c16KeyValueElsewhere(c)
	}
	f, _ := compareQueryWithRef("C16", c, nil)
	return f
}

func c16StringRoundTrip(c Case) *Failure {
	v := decodeTagged(c.Extra["a"], "float64")
	run := func(text string) Out {
		p, err, pan := parseCached(text)
		if err != nil || pan != "" {
			return Out{Class: "parse-failure"}
		}
		return implQuery(p, nil, runCfg{vars: map[string]any{"a": v}, tz: true})
	}
	// the matching method applied to the value itself ...
	direct := run("$a" + c.Extra["prefix"] + c.Extra["back"])
	if direct.Class != "ok" {
		return nil
	}
	// ... and to its .string() rendering must agree
	viaString := run("$a" + c.Extra["prefix"] + ".string()" + c.Extra["back"])
	if viaString.Class != "ok" || canonList(viaString.Items) != canonList(direct.Items) {
		return &Failure{Sig: "C16/string-does-not-convert-back/" + c.Extra["back"], Expected: "$a" + c.Extra["prefix"] + " => " + direct.String(), Observed: "$a" + c.Extra["prefix"] + ".string()" + c.Extra["back"] + " => " + viaString.String()}
	}
	return nil
}

// c16KeyValue: one {key,value,id} per member in key order; ids equal within an
// object, distinct across objects, stable over repeated executions.
func c16KeyValue(c Case) *Failure {
	doc := mustDoc(c.Doc, "float64")
	p, err, pan := parseCached(c.Path)
	if err != nil || pan != "" {
		return &Failure{Sig: "C16/keyvalue/parse", Expected: "parses", Observed: fmt.Sprint(err, pan)}
	}
	var objs []map[string]any
	switch d := doc.(type) {
	case map[string]any:
		objs = []map[string]any{d}
	case []any:
		for _, e := range d {
			if m, ok := e.(map[string]any); ok {
				objs = append(objs, m)
			} else {
				return nil // a non-object element makes .keyvalue() fail: covered by the reference sweep
			}
		}
	default:
		return nil
	}
	var first []any
	for rep := 0; rep < 3; rep++ {
		o := implQuery(p, doc, runCfg{})
		if o.Class != "ok" {
			return &Failure{Sig: "C16/keyvalue/error", Expected: "ok", Observed: o.String()}
		}
		i := 0
		ids := map[string]int{}
		for oi, obj := range objs {
			keys := make([]string, 0, len(obj))
			for k := range obj {
				keys = append(keys, k)
			}
			sort.Strings(keys)
			var objID string
			for _, k := range keys {
				if i >= len(o.Items) {
					return &Failure{Sig: "C16/keyvalue/too-few-triples", Expected: "one triple per member", Observed: o.String()}
				}
				t, ok := o.Items[i].(map[string]any)
				i++
				if !ok || !isKVTriple(t) || t["key"] != k || canon(t["value"]) != canon(obj[k]) {
					return &Failure{Sig: "C16/keyvalue/wrong-triple", Expected: fmt.Sprintf("{key:%q, value:%s, id}", k, canon(obj[k])), Observed: canon(o.Items[i-1])}
				}
				id := fmt.Sprint(t["id"])
				if objID == "" {
					objID = id
				} else if id != objID {
					return &Failure{Sig: "C16/keyvalue/ids-differ-within-object", Expected: objID, Observed: id}
				}
			}
			if objID != "" {
				if prev, dup := ids[objID]; dup {
					return &Failure{Sig: "C16/keyvalue/ids-collide-across-objects", Expected: "distinct ids for objects " + fmt.Sprint(prev, oi), Observed: objID}
				}
				ids[objID] = oi
			}
		}
		if i != len(o.Items) {
			return &Failure{Sig: "C16/keyvalue/too-many-triples", Expected: fmt.Sprint(i, " triples"), Observed: o.String()}
		}
		if rep == 0 {
			first = o.Items
		} else if canon(first) != canon(o.Items) {
			return &Failure{Sig: "C16/keyvalue/ids-not-stable", Expected: canon(first), Observed: canon(o.Items)}
		}
	}
	return nil
}

// c16KeyValueContext: ids of an object do not depend on what was evaluated (and failed) before in
// the same execution: every triple delivered after a filter that itself ran .keyvalue() on earlier,
// failing elements equals the triple the plain path delivers for that object.
func c16KeyValueContext(c Case) *Failure {
	doc := mustDoc(c.Doc, "float64")
	plain, _, _ := parseCached("$[*].keyvalue()")
	filt, err, pan := parseCached(c.Path)
	if err != nil || pan != "" {
		return &Failure{Sig: "C16/keyvalue/parse", Expected: "parses", Observed: fmt.Sprint(err, pan)}
	}
	a := implQuery(plain, doc, runCfg{})
	b := implQuery(filt, doc, runCfg{silent: c.Silent})
	if a.Class != "ok" || b.Class != "ok" {
		return nil
	}
	have := map[string]bool{}
	for _, it := range a.Items {
		have[canon(it)] = true
	}
	for _, it := range b.Items {
		if !have[canon(it)] {
			return &Failure{Sig: "C16/keyvalue/ids-depend-on-earlier-evaluation", Expected: "a triple of " + canon(a.Items), Observed: canon(it) + " from " + c.Path}
		}
	}
	return nil
}

// c16KeyValueElsewhere: the id an object reports does not depend on where in the path the object is asked:
// the root's id asked inside a filter over generated triples, inside a filter over a variable, and inside a
// subscript of a variable equals the id the plain path reports (which is also stable over executions).
func c16KeyValueElsewhere(c Case) *Failure {
	doc := mustDoc(c.Doc, "float64")
	obj, ok := doc.(map[string]any)
	if !ok || len(obj) == 0 {
		return nil
	}
	q := func(text string, vars exec.Vars) Out {
		p, err, pan := parseCached(text)
		if err != nil || pan != "" {
			panic("harness: " + text)
		}
		return implQuery(p, doc, runCfg{vars: vars, silent: c.Silent})
	}
	top := q("$.keyvalue().id", nil)
	if top.Class != "ok" || len(top.Items) != len(obj) {
		return &Failure{Sig: "C16/keyvalue/error", Expected: fmt.Sprint(len(obj), " ids"), Observed: top.String()}
	}
	id := top.Items[0]
	want := canon([]any{id})
	for _, t := range []struct {
		path string
		vars exec.Vars
		n    int
	}{
		{"$.keyvalue() ? (@.id == $.keyvalue().id).id", nil, len(obj)},
		{"strict $.keyvalue() ? (@.id == $.keyvalue().id).id", nil, len(obj)},
		{"$v ? (@ == $.keyvalue().id)", exec.Vars{"v": id}, 1},
		{"$v.n ? (@ == $.keyvalue().id)", exec.Vars{"v": map[string]any{"n": id}}, 1},
		{"$v[*] ? (@.x == $.keyvalue().id).x", exec.Vars{"v": []any{map[string]any{"x": id}}}, 1},
		{"$.keyvalue().value ? ($.keyvalue().id == $v)", exec.Vars{"v": id}, -1},
		{"$v.keyvalue() ? ($.keyvalue().id == $w).key", exec.Vars{"v": map[string]any{"k": true}, "w": id}, -2},
	} {
		o := q(t.path, t.vars)
		if o.Class != "ok" {
			return &Failure{Sig: "C16/keyvalue/id-depends-on-where-asked", Expected: "ok", Observed: o.String() + " from " + t.path}
		}
		switch {
		case t.n == -1: // one item per member value (lax unwrapping may add more): only emptiness is decided here
			allEmpty := true // the lax filter unwraps one array level: only empty arrays contribute nothing
			for _, v := range obj {
				if a, isArr := v.([]any); !isArr || len(a) > 0 {
					allEmpty = false
				}
			}
			if len(o.Items) == 0 && !allEmpty {
				return &Failure{Sig: "C16/keyvalue/id-depends-on-where-asked", Expected: "every member value (root id " + canon(id) + ")", Observed: "[] from " + t.path}
			}
		case t.n == -2:
			if canon(o.Items) != canon([]any{"k"}) {
				return &Failure{Sig: "C16/keyvalue/id-depends-on-where-asked", Expected: `["k"]`, Observed: canon(o.Items) + " from " + t.path}
			}
		default:
			if len(o.Items) != t.n || canon(o.Items[:1]) != want {
				return &Failure{Sig: "C16/keyvalue/id-depends-on-where-asked", Expected: fmt.Sprint(t.n, " x ", canon(id)), Observed: canon(o.Items) + " from " + t.path}
			}
		}
	}
	return nil
}

func runC16(r *Run) {
	r.Rule("every method (12 methods, .decimal with 41 precision/scale combinations incl. every boundary and out-of-range argument; scales -312..-296 on 13 values next to the largest double; thorough: the whole domain p in 1..1000 x s in -1000..1000) x every input kind x a boundary grid of 48 numeric values (int32/int64 limits +-1, +-0.25/0.4/0.5/0.75 around the int32 limits, rounding ties, 2^53, 2^63 as double and neighbours, tiny/huge) each as float64, json.Number and string, 17 further json.Number spellings, 48 strings (numeric forms, boolean words, blanks, Infinity/NaN), containers; direct and after [*]; both modes, verbose and silent; oracle: reference model with math/big (accepted kinds, suppressible error otherwise, correctly rounded results, mandatory errors outside int32/int64/precision-scale/finite); .string() converts back with the matching method; the int32/int64 limits also in their exact integer spelling as json.Number and string; keyvalue triples per member with ids equal within an object, distinct across objects, stable over three executions, and equal wherever in the path the object is asked (filter over generated triples, filters and subscripts over variables); non-trivial = reference yields items or an error")
	values := c16Values(r.Thorough())
	paths := c16MethodPaths()
	r.Bound("values", len(values))
	r.Bound("method_paths", len(paths))
	var cfgs []sweepCfg
	dts := []string{"s:2015-08-02", "s:12:34:56", "s:12:34:56.789+05:30", "s:2015-08-02T12:34:56", "s:2015-08-02T12:34:56.5-04:00", "s:x"}
	for i, v := range values {
		d := dts[i%len(dts)]
		cfgs = append(cfgs, sweepCfg{Num: "float64", Vars: map[string]string{"a": v, "d": d}, TZ: true}, sweepCfg{Num: "float64", Vars: map[string]string{"a": v, "d": d}, TZ: true, Silent: true})
	}
	docs := makeDocs([]any{nil})
	refSweep(r, "methods-vs-reference", paths, docs, cfgs)

	// json.Number spellings with a fraction or exponent exactly at the int32 / int64 limits, and values whose
	// rounding lands exactly on 10^precision (one digit too many)
	var lp []Path
	for _, m := range []string{"integer", "bigint", "double", "number", "abs", "floor", "ceiling", "string"} {
		lp = append(lp, Path{E: eVar("a", sMethod(m))}, Path{Strict: true, E: eVar("a", sMethod(m))})
	}
	for _, ps := range [][2]int64{{2, 1}, {2, 0}, {2, 2}, {3, 2}, {3, 0}, {1, 0}, {1, 1}, {4, 3}} {
		p0, s0 := ps[0], ps[1]
		lp = append(lp, Path{E: eVar("a", sDecimal(&p0, &s0))})
	}
	var lcfgs []sweepCfg
	for _, v := range []string{"n:-9223372036854775808.0", "n:-9.223372036854775808e18", "n:9223372036854775807.0", "n:9.223372036854775807e18", "n:-9223372036854775809.0", "n:-2147483648.0", "n:2147483647.0",
		"n:2.147483647e9", "n:-2.147483648e9", "n:2147483647.4", "n:2147483647.5", "n:-2147483648.5", "n:-2147483648.4", "f:-9223372036854775808", "f:9223372036854775808",
		"f:9.99", "f:99.5", "f:0.995", "f:9.995", "f:-9.99", "f:999.5", "f:9.5", "f:0.95", "n:9.99", "s:99.5", "f:9.94", "f:99.4", "f:-0.995", "f:0.9995"} {
		lcfgs = append(lcfgs, sweepCfg{Num: "float64", Vars: map[string]string{"a": v}}, sweepCfg{Num: "float64", Vars: map[string]string{"a": v}, Silent: true})
	}
	refSweep(r, "limit-spellings-and-precision-carries", lp, docs, lcfgs)
	// method arguments in every integer spelling denote the same call: relation between two real executions
	spell := func(v int64) []string {
		neg, a := "", v
		if v < 0 {
			neg, a = "-", -v
		}
		out := []string{neg + "0x" + strconv.FormatInt(a, 16), neg + "0X" + strings.ToUpper(strconv.FormatInt(a, 16)), neg + "0o" + strconv.FormatInt(a, 8), neg + "0b" + strconv.FormatInt(a, 2), neg + "0" + strconv.FormatInt(a, 8)}
		if a >= 10 {
			d := strconv.FormatInt(a, 10)
			out = append(out, neg+d[:1]+"_"+d[1:])
		}
		if a < 8 {
			out = out[:4] // a leading zero before a single octal digit is the digit itself; keep the prefixed forms
		}
		return out
	}
	for _, v := range []string{"f:1234.5678", "f:-0.05", "n:99.995", "s:12.345", "f:1e+15"} {
		for _, ps := range [][2]int64{{6, 2}, {10, 0}, {15, 3}, {3, -1}, {12, 10}, {1000, 1000}} {
			base := fmt.Sprintf("$a.decimal(%d, %d)", ps[0], ps[1])
			for _, sp := range spell(ps[0]) {
				for _, ss := range append(spell(ps[1]), fmt.Sprint(ps[1])) {
					c := Case{Rule: "argument-spelling", Path: base, Path2: "$a.decimal(" + sp + ", " + ss + ")", Vars: map[string]string{"a": v}}
					r.evals.Add(1)
					r.traces.Add(2)
					if f := c16ArgSpelling(c); f != nil {
						r.Fail(c, f)
					}
				}
			}
		}
	}
	// rounding at a negative scale next to the largest doubles (the rounded value may leave the finite range)
	var hp []Path
	for _, pp := range []int64{1, 2, 17, 309, 1000} {
		for sc := int64(-312); sc <= -296; sc++ {
			pp, sc := pp, sc
			hp = append(hp, Path{E: eVar("a", sDecimal(&pp, &sc))}, Path{Strict: true, E: eVar("a", sDecimal(&pp, &sc))})
		}
	}
	var hcfgs []sweepCfg
	for _, v := range []string{"f:1.5e+308", "f:-1.5e+308", "f:1.7976931348623157e+308", "f:9.9e+307", "f:1e+308", "f:4e+307", "f:5e+307", "f:1.4999e+308", "n:1.5e308", "n:17e307", "s:1.5e308", "f:9.5e+303", "f:1.797e+308"} {
		hcfgs = append(hcfgs, sweepCfg{Num: "float64", Vars: map[string]string{"a": v}}, sweepCfg{Num: "float64", Vars: map[string]string{"a": v}, Silent: true})
	}
	r.Bound("huge_value_decimal_paths", len(hp))
	refSweep(r, "decimal-negative-scale-near-the-largest-double", hp, docs, hcfgs)
	if r.Thorough() {
		// the whole .decimal(p,s) domain
		vals := []string{"f:0", "f:1", "f:-1", "f:9.99", "f:99.5", "f:0.05", "f:123456.789", "f:1e+15", "f:1e+21", "f:1e+308", "f:5e-324", "f:2.5"}
		var dcfgs []sweepCfg
		for _, v := range vals {
			dcfgs = append(dcfgs, sweepCfg{Num: "float64", Vars: map[string]string{"a": v}})
		}
		var dpaths []Path
		for p := int64(1); p <= 1000; p++ {
			for s := int64(-1000); s <= 1000; s++ {
				p, s := p, s
				dpaths = append(dpaths, Path{E: eVar("a", sDecimal(&p, &s))})
			}
		}
		r.Bound("decimal_domain_pairs", len(dpaths))
		refSweep(r, "decimal-whole-domain", dpaths, docs, dcfgs)
	}

	// .string() converts back
	backs := []struct{ prefix, back string }{{"", ".double()"}, {"", ".number()"}, {"", ".boolean()"}, {".integer()", ".integer()"}, {".bigint()", ".bigint()"},
		{".double()", ".double()"}, {".number()", ".number()"}, {".boolean()", ".boolean()"}, {".abs()", ".number()"}, {".floor()", ".double()"}}
	for _, v := range values {
		if !(strings.HasPrefix(v, "f:") || strings.HasPrefix(v, "i:") || strings.HasPrefix(v, "n:") || v == "j:true" || v == "j:false") {
			continue
		}
		for _, b := range backs {
			if (v == "j:true" || v == "j:false") != strings.Contains(b.back, "boolean") && b.prefix == "" {
				continue
			}
			c := Case{Rule: "string-roundtrip", Extra: map[string]string{"a": v, "prefix": b.prefix, "back": b.back}}
			r.evals.Add(1)
			if f := c16StringRoundTrip(c); f != nil {
				r.Fail(c, f)
			}
		}
	}
	// keyvalue
	var kvdocs []docEntry
	for _, d := range makeDocs(Docs(4, stdScalars, stdKeys)) {
		switch v := d.f.(type) {
		case map[string]any:
			kvdocs = append(kvdocs, d)
		case []any:
			all := len(v) > 0
			for _, e := range v {
				if _, ok := e.(map[string]any); !ok {
					all = false
				}
			}
			if all {
				kvdocs = append(kvdocs, d)
			}
		}
	}
	kvdocs = append(kvdocs, makeDocs([]any{mustDoc(`[{"a":1},{"a":1},{"a":1}]`, "float64"), mustDoc(`[{"a":1,"b":2,"c":3},{},{"c":3}]`, "float64")})...)
	r.Bound("keyvalue_documents", len(kvdocs))
	r.ParFor(len(kvdocs), func(i int) {
		for _, path := range []string{"$.keyvalue()", "$[*].keyvalue()", "strict $[*].keyvalue()"} {
			if path == "strict $[*].keyvalue()" {
				if _, isArr := kvdocs[i].f.([]any); !isArr {
					continue
				}
			}
			c := Case{Rule: "keyvalue", Path: path, Doc: kvdocs[i].text}
			r.evals.Add(1)
			if f := c16KeyValue(c); f != nil {
				r.Fail(c, f)
			}
		}
	})
	// ids do not depend on where in the path the object is asked
	r.ParFor(len(kvdocs), func(i int) {
		for _, silent := range []bool{false, true} {
			c := Case{Rule: "keyvalue-asked-elsewhere", Path: "$.keyvalue().id", Doc: kvdocs[i].text, Silent: silent}
			r.evals.Add(1)
			r.traces.Add(8)
			if f := c16KeyValueElsewhere(c); f != nil {
				r.Fail(c, f)
			}
		}
	})
	// ids do not depend on earlier (failing) evaluation
	objs := []string{`{"a":"x"}`, `{"a":1}`, `{"a":"2","b":3}`, `{"b":{"a":"y"}}`}
	var ctxDocs []string
	for _, x := range objs {
		ctxDocs = append(ctxDocs, "["+x+"]")
		for _, y := range objs {
			ctxDocs = append(ctxDocs, "["+x+","+y+"]")
			for _, z := range objs {
				ctxDocs = append(ctxDocs, "["+x+","+y+","+z+"]")
			}
		}
	}
	ctxPaths := []string{
		`$[*] ? (exists(@.keyvalue().value.double())).keyvalue()`, `$[*] ? (@.keyvalue().value.double() > 0).keyvalue()`,
		`$[*] ? ((@.keyvalue().value.double() > 0) is unknown).keyvalue()`, `$[*] ? (exists(@.keyvalue().value.keyvalue())).keyvalue()`,
		`$[*] ? (exists(@.keyvalue().value.integer()) || exists(@.a)).keyvalue()`, `strict $[*] ? (exists(@.keyvalue().value.double())).keyvalue()`,
		`$[*] ? (!(exists(@.keyvalue().value.double()))).keyvalue()`,
	}
	for _, d := range ctxDocs {
		for _, p := range ctxPaths {
			for _, silent := range []bool{false, true} {
				c := Case{Rule: "keyvalue-context", Path: p, Doc: d, Silent: silent}
				r.evals.Add(1)
				if f := c16KeyValueContext(c); f != nil {
					r.Fail(c, f)
				}
			}
		}
	}
}
