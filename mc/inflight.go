package main

// In-flight registry: the inputs each worker is evaluating are kept in a
// MAP_SHARED file, so that when the implementation kills the process outright
// (fatal error: stack overflow, concurrent map writes, out of memory — none of
// which a deferred recover sees) the wrapper can still say which inputs were
// being evaluated and report the crash as a violation with an artefact.

import (
	"encoding/json"
	"fmt"
	"os"
	"path/filepath"
	"strings"
	"syscall"
	"time"
)

const (
	inflightSlots    = 4096
	inflightSlotSize = 1024
)

var inflightMem []byte

func inflightInit() {
	name := os.Getenv("VERIF_INFLIGHT")
	if name == "" {
		return
	}
	f, err := os.OpenFile(name, os.O_RDWR|os.O_CREATE|os.O_TRUNC, 0o644)
	if err != nil {
		return
	}
	defer f.Close()
	if err := f.Truncate(inflightSlots * inflightSlotSize); err != nil {
		return
	}
	m, err := syscall.Mmap(int(f.Fd()), 0, inflightSlots*inflightSlotSize, syscall.PROT_READ|syscall.PROT_WRITE, syscall.MAP_SHARED)
	if err != nil {
		return
	}
	inflightMem = m
}

// noteSlot records what index i of the current ParFor call is evaluating.
func noteSlot(i int, s string) {
	if inflightMem == nil {
		return
	}
	if len(s) > inflightSlotSize-3 {
		s = s[:inflightSlotSize-3]
	}
	off := (i % inflightSlots) * inflightSlotSize
	inflightMem[off], inflightMem[off+1] = 0, 0
	copy(inflightMem[off+2:], s)
	inflightMem[off], inflightMem[off+1] = byte(len(s)>>8), byte(len(s))
}

func clearSlot(i int) {
	if inflightMem == nil {
		return
	}
	off := (i % inflightSlots) * inflightSlotSize
	inflightMem[off], inflightMem[off+1] = 0, 0
}

// Note adds the input text to the slot of ParFor index i (called by the sweeps).
func (r *Run) Note(i int, s string) {
	noteSlot(i, fmt.Sprintf("parfor#%d index=%d %s", r.parforCall.Load(), i, s))
}

// crashReport: mc --crash-report <ID> <inflight file> <stderr file> <exit code>
// turns a process death into a violation artefact.
func crashReport(id, inflightFile, stderrFile, code string) int {
	var inputs []string
	if b, err := os.ReadFile(inflightFile); err == nil {
		for off := 0; off+inflightSlotSize <= len(b); off += inflightSlotSize {
			n := int(b[off])<<8 | int(b[off+1])
			if n > 0 && n <= inflightSlotSize-2 {
				inputs = append(inputs, string(b[off+2:off+2+n]))
			}
		}
	}
	log, _ := os.ReadFile(stderrFile)
	text := string(log)
	head := text
	if i := strings.Index(text, "fatal error:"); i >= 0 {
		head = text[i:]
	} else if i := strings.Index(text, "panic:"); i >= 0 {
		head = text[i:]
	}
	if len(head) > 6000 {
		head = head[:6000]
	}
	first := strings.SplitN(strings.TrimSpace(head), "\n", 2)[0]
	dir := os.Getenv("VERIF_REPLAY_DIR")
	if dir == "" {
		dir = filepath.Join(verifRoot, "replays")
	}
	_ = os.MkdirAll(dir, 0o755)
	out := filepath.Join(dir, fmt.Sprintf("%s-crash-%d.json", id, time.Now().UnixNano()))
	rep := map[string]any{"property": id, "crash": true, "sig": id + "/process-killed-by-implementation", "exit_code": code, "first_line": first,
		"inputs_in_flight": inputs, "log_head": head,
		"replay": "re-run ./check " + id + " (the whole check): the process dies again while evaluating one of inputs_in_flight"}
	b, _ := json.MarshalIndent(rep, "", " ")
	if err := os.WriteFile(out, b, 0o644); err != nil {
		fmt.Fprintln(os.Stderr, err)
	}
	fmt.Printf("VIOLATION property=%s replay=%s\n  sig=%s/process-killed-by-implementation\n  expected: every evaluation returns (a value, an error, or a recoverable panic)\n  observed: the check process died (exit %s): %s; %d inputs in flight\n", id, out, id, code, first, len(inputs))
	return 1
}
