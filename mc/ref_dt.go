package main

// Reference civil-time model for the datetime methods (C17/C18): own parser of
// the documented ISO-8601 forms, days-from-civil arithmetic, integer
// nanoseconds, offsets in seconds. Go's time package is trusted only for "the
// UTC offset of zone Z for this local/absolute time".

import (
	"fmt"
	"regexp"
	"strconv"
	"strings"
	"time"
)

type dtKind int

const (
	dtDate dtKind = iota
	dtTime
	dtTimeTZ
	dtTimestamp
	dtTimestampTZ
)

type refDT struct {
	kind dtKind
	days int64 // civil days since 1970-01-01 (0 for time kinds)
	nsec int64 // nanoseconds since local midnight
	off  int   // seconds east of UTC (tz kinds)
}

const nsPerDay = int64(86400) * 1e9

func (d refDT) typeName() string {
	return [...]string{"date", "time without time zone", "time with time zone",
		"timestamp without time zone", "timestamp with time zone"}[d.kind]
}

func daysFromCivil(y, m, d int64) int64 {
	if m <= 2 {
		y--
	}
	era := y / 400
	if y < 0 {
		era = (y - 399) / 400
	}
	yoe := y - era*400
	mp := (m + 9) % 12
	doy := (153*mp+2)/5 + d - 1
	doe := yoe*365 + yoe/4 - yoe/100 + doy
	return era*146097 + doe - 719468
}

func civilFromDays(z int64) (y, m, d int64) {
	z += 719468
	era := z / 146097
	if z < 0 {
		era = (z - 146096) / 146097
	}
	doe := z - era*146097
	yoe := (doe - doe/1460 + doe/36524 - doe/146096) / 365
	y = yoe + era*400
	doy := doe - (365*yoe + yoe/4 - yoe/100)
	mp := (5*doy + 2) / 153
	d = doy - (153*mp+2)/5 + 1
	if mp < 10 {
		m = mp + 3
	} else {
		m = mp - 9
	}
	if m <= 2 {
		y++
	}
	return
}

func daysInMonth(y, m int64) int64 {
	switch m {
	case 2:
		if y%4 == 0 && (y%100 != 0 || y%400 == 0) {
			return 29
		}
		return 28
	case 4, 6, 9, 11:
		return 30
	}
	return 31
}

func fmtOffset(off int) string {
	sign := "+"
	if off < 0 {
		sign = "-"
		off = -off
	}
	s := fmt.Sprintf("%s%02d:%02d", sign, off/3600, off/60%60)
	if off%60 != 0 {
		s += fmt.Sprintf(":%02d", off%60)
	}
	return s
}

func fmtClock(nsec int64) string {
	s := nsec / 1e9
	frac := nsec % 1e9
	out := fmt.Sprintf("%02d:%02d:%02d", s/3600, s/60%60, s%60)
	if frac != 0 {
		f := fmt.Sprintf("%09d", frac)
		out += "." + strings.TrimRight(f, "0")
	}
	return out
}

func fmtDate(days int64) string {
	y, m, d := civilFromDays(days)
	return fmt.Sprintf("%04d-%02d-%02d", y, m, d)
}

// text is the ISO-8601 rendering (C18).
func (d refDT) text() string {
	switch d.kind {
	case dtDate:
		return fmtDate(d.days)
	case dtTime:
		return fmtClock(d.nsec)
	case dtTimeTZ:
		return fmtClock(d.nsec) + fmtOffset(d.off)
	case dtTimestamp:
		return fmtDate(d.days) + "T" + fmtClock(d.nsec)
	}
	return fmtDate(d.days) + "T" + fmtClock(d.nsec) + fmtOffset(d.off)
}

func (d refDT) canon() string {
	date := fmtDate(d.days)
	clock := fmt.Sprintf("%02d:%02d:%02d.%09d", d.nsec/1e9/3600, d.nsec/1e9/60%60, d.nsec/1e9%60, d.nsec%1e9)
	off := d.off
	sign := "+"
	if off < 0 {
		sign = "-"
		off = -off
	}
	zone := fmt.Sprintf("%s%02d:%02d:%02d", sign, off/3600, off/60%60, off%60)
	switch d.kind {
	case dtDate:
		return "date(" + date + ")"
	case dtTime:
		return "time(" + clock + ")"
	case dtTimeTZ:
		return "timetz(" + clock + zone + ")"
	case dtTimestamp:
		return "timestamp(" + date + "T" + clock + ")"
	}
	return "timestamptz(" + date + "T" + clock + zone + ")"
}

// instant returns UTC nanoseconds since the epoch day 0 for kinds with a date
// (zone-less kinds are read as UTC).
func (d refDT) instant() (days int64, nsec int64) {
	n := d.nsec - int64(d.off)*1e9
	days = d.days
	for n < 0 {
		n += nsPerDay
		days--
	}
	for n >= nsPerDay {
		n -= nsPerDay
		days++
	}
	return days, n
}

var (
	reDate  = regexp.MustCompile(`^(\d{4})-(\d{2})-(\d{2})$`)
	reClock = regexp.MustCompile(`^(\d{2}):(\d{2}):(\d{2})([.,](\d+))?$`) // ISO 8601 allows a comma as the decimal sign
	reZone  = regexp.MustCompile(`(Z|[+-]\d{2}(:\d{2})?)$`)
)

func parseDatePart(s string) (int64, bool) {
	m := reDate.FindStringSubmatch(s)
	if m == nil {
		return 0, false
	}
	y, _ := strconv.ParseInt(m[1], 10, 64)
	mo, _ := strconv.ParseInt(m[2], 10, 64)
	d, _ := strconv.ParseInt(m[3], 10, 64)
	if mo < 1 || mo > 12 || d < 1 || d > daysInMonth(y, mo) {
		return 0, false
	}
	return daysFromCivil(y, mo, d), true
}

func parseClockPart(s string) (nsec int64, digits int, ok bool) {
	m := reClock.FindStringSubmatch(s)
	if m == nil {
		return 0, 0, false
	}
	h, _ := strconv.ParseInt(m[1], 10, 64)
	mi, _ := strconv.ParseInt(m[2], 10, 64)
	sec, _ := strconv.ParseInt(m[3], 10, 64)
	if h > 23 || mi > 59 || sec > 59 {
		return 0, 0, false
	}
	frac := m[5]
	digits = len(frac)
	if len(frac) > 9 {
		frac = frac[:9]
	}
	for len(frac) < 9 {
		frac += "0"
	}
	f, _ := strconv.ParseInt(frac, 10, 64)
	return (h*3600+mi*60+sec)*1e9 + f, digits, true
}

func parseZonePart(s string) (off int, ok bool) {
	if s == "Z" {
		return 0, true
	}
	sign := 1
	if s[0] == '-' {
		sign = -1
	}
	hh, _ := strconv.Atoi(s[1:3])
	mm := 0
	if len(s) == 6 {
		mm, _ = strconv.Atoi(s[4:6])
	}
	if hh > 23 || mm > 59 {
		return 0, false
	}
	return sign * (hh*3600 + mm*60), true
}

// parseDT recognises the documented forms. digits is the number of fractional
// second digits written.
func parseDT(s string) (d refDT, digits int, ok bool) {
	if days, ok := parseDatePart(s); ok {
		return refDT{kind: dtDate, days: days}, 0, true
	}
	body, zone, hasZone := s, "", false
	if loc := reZone.FindStringIndex(s); loc != nil && loc[0] > 0 {
		// a trailing zone designator; "-dd" could also be the day of a date, which was tried above
		body, zone, hasZone = s[:loc[0]], s[loc[0]:], true
	}
	off := 0
	if hasZone {
		var zok bool
		off, zok = parseZonePart(zone)
		if !zok {
			return refDT{}, 0, false
		}
	}
	if nsec, dg, ok := parseClockPart(body); ok {
		if hasZone {
			return refDT{kind: dtTimeTZ, nsec: nsec, off: off}, dg, true
		}
		return refDT{kind: dtTime, nsec: nsec}, dg, true
	}
	if len(body) > 11 && (body[10] == 'T' || body[10] == ' ') {
		days, ok1 := parseDatePart(body[:10])
		nsec, dg, ok2 := parseClockPart(body[11:])
		if ok1 && ok2 {
			if hasZone {
				return refDT{kind: dtTimestampTZ, days: days, nsec: nsec, off: off}, dg, true
			}
			return refDT{kind: dtTimestamp, days: days, nsec: nsec}, dg, true
		}
	}
	return refDT{}, 0, false
}

// roundPrecision rounds the fractional seconds to p digits (half up; values are
// non-negative). crossed reports a carry past midnight for time kinds.
func (d refDT) roundPrecision(p int) (out refDT, crossed bool) {
	unit := int64(1)
	for i := 0; i < 9-p; i++ {
		unit *= 10
	}
	n := (d.nsec + unit/2) / unit * unit
	out = d
	if n >= nsPerDay {
		n -= nsPerDay
		crossed = true
		if d.kind == dtTimestamp || d.kind == dtTimestampTZ {
			out.days++
			crossed = false
		}
	}
	out.nsec = n
	return out, crossed
}

func (c *refCtx) zoneLoc() *time.Location {
	if c.zone == nil {
		return time.UTC
	}
	return c.zone
}

func isFixedZone(loc *time.Location) bool {
	if loc == time.UTC {
		return true
	}
	a := time.Date(2015, 1, 15, 12, 0, 0, 0, loc)
	b := time.Date(2015, 7, 15, 12, 0, 0, 0, loc)
	cc := time.Date(1950, 7, 15, 12, 0, 0, 0, loc)
	_, o1 := a.Zone()
	_, o2 := b.Zone()
	_, o3 := cc.Zone()
	return o1 == o2 && o2 == o3 && !strings.Contains(loc.String(), "/")
}

// localToOffset: UTC offset of the context zone for a local civil time;
// unambiguous=false when that local time does not exist or occurs twice there.
// A reading L is valid under offset o iff the zone's offset at the instant L-o
// is o; the candidates are the offsets in force a day before and a day after.
func localToOffset(loc *time.Location, days, nsec int64) (off int, unambiguous bool) {
	local := days*86400 + nsec/1e9
	offAt := func(unix int64) int {
		_, o := time.Unix(unix, 0).In(loc).Zone()
		return o
	}
	cands := []int{offAt(local - 26*3600), offAt(local + 26*3600)}
	if cands[0] == cands[1] {
		cands = cands[:1]
	}
	valid := 0
	for _, o := range cands {
		if offAt(local-int64(o)) == o {
			off = o
			valid++
		}
	}
	if valid == 0 {
		off = cands[0]
	}
	return off, valid == 1
}

func instantToOffset(loc *time.Location, days, nsec int64) int {
	t := time.Unix(days*86400+nsec/1e9, nsec%1e9).In(loc)
	_, off := t.Zone()
	return off
}

// toZone re-expresses a timestamptz in the context zone.
func (c *refCtx) toZone(d refDT) refDT {
	days, n := d.instant()
	off := instantToOffset(c.zoneLoc(), days, n)
	if off%60 != 0 {
		c.decline("zone offset with seconds (local mean time)")
	}
	n += int64(off) * 1e9
	for n < 0 {
		n += nsPerDay
		days--
	}
	for n >= nsPerDay {
		n -= nsPerDay
		days++
	}
	return refDT{kind: dtTimestampTZ, days: days, nsec: n, off: off}
}

func tzRequired() *refErr { return hard("cannot convert value without time zone usage") }

// cast converts d to the target kind by the documented cast matrix.
func (c *refCtx) cast(d refDT, to dtKind) (refDT, *refErr) {
	if d.kind == to {
		return d, nil
	}
	notRecognized := soft("format is not recognized")
	switch to {
	case dtDate:
		switch d.kind {
		case dtTimestamp:
			return refDT{kind: dtDate, days: d.days}, nil
		case dtTimestampTZ:
			if !c.useTZ {
				return refDT{}, tzRequired()
			}
			z := c.toZone(d)
			return refDT{kind: dtDate, days: z.days}, nil
		}
		return refDT{}, notRecognized
	case dtTime:
		switch d.kind {
		case dtTimeTZ:
			if !c.useTZ {
				return refDT{}, tzRequired()
			}
			return refDT{kind: dtTime, nsec: d.nsec}, nil
		case dtTimestamp:
			return refDT{kind: dtTime, nsec: d.nsec}, nil
		case dtTimestampTZ:
			if !c.useTZ {
				return refDT{}, tzRequired()
			}
			z := c.toZone(d)
			return refDT{kind: dtTime, nsec: z.nsec}, nil
		}
		return refDT{}, notRecognized
	case dtTimeTZ:
		switch d.kind {
		case dtTime:
			if !c.useTZ {
				return refDT{}, tzRequired()
			}
			if !isFixedZone(c.zoneLoc()) {
				c.decline("time -> timetz under a zone with DST depends on the current date")
			}
			_, off := time.Now().In(c.zoneLoc()).Zone()
			return refDT{kind: dtTimeTZ, nsec: d.nsec, off: off}, nil
		case dtTimestampTZ:
			z := c.toZone(d)
			return refDT{kind: dtTimeTZ, nsec: z.nsec, off: z.off}, nil
		}
		return refDT{}, notRecognized
	case dtTimestamp:
		switch d.kind {
		case dtDate:
			return refDT{kind: dtTimestamp, days: d.days}, nil
		case dtTimestampTZ:
			if !c.useTZ {
				return refDT{}, tzRequired()
			}
			z := c.toZone(d)
			return refDT{kind: dtTimestamp, days: z.days, nsec: z.nsec}, nil
		}
		return refDT{}, notRecognized
	case dtTimestampTZ:
		switch d.kind {
		case dtDate, dtTimestamp:
			if !c.useTZ {
				return refDT{}, tzRequired()
			}
			off, clean := localToOffset(c.zoneLoc(), d.days, d.nsec)
			if off%60 != 0 {
				c.decline("zone offset with seconds (local mean time)")
			}
			if !clean {
				c.decline("local time missing or ambiguous in the context zone")
			}
			return refDT{kind: dtTimestampTZ, days: d.days, nsec: d.nsec, off: off}, nil
		}
		return refDT{}, notRecognized
	}
	panic("harness: cast")
}

func cmp64(a, b int64) int {
	switch {
	case a < b:
		return -1
	case a > b:
		return 1
	}
	return 0
}

// cmpDT compares two datetimes: comparison equals comparison after explicit
// casts to the common type.
func (c *refCtx) cmpDT(a, b refDT) (cmp int, comparable bool, err *refErr) {
	isTimeKind := func(k dtKind) bool { return k == dtTime || k == dtTimeTZ }
	if isTimeKind(a.kind) != isTimeKind(b.kind) {
		return 0, false, nil
	}
	if isTimeKind(a.kind) {
		if a.kind != b.kind {
			// time vs timetz: cast the zone-less side
			if !c.useTZ {
				return 0, false, tzRequired()
			}
			var e *refErr
			if a.kind == dtTime {
				a, e = c.cast(a, dtTimeTZ)
			} else {
				b, e = c.cast(b, dtTimeTZ)
			}
			if e != nil {
				return 0, false, e
			}
		}
		if a.kind == dtTime {
			return cmp64(a.nsec, b.nsec), true, nil
		}
		ua, ub := a.nsec-int64(a.off)*1e9, b.nsec-int64(b.off)*1e9
		if r := cmp64(ua, ub); r != 0 {
			return r, true, nil
		}
		if a.off != b.off {
			c.decline("timetz values with equal instants and different offsets: direction of the tie-break is open")
		}
		return -cmp64(int64(a.off), int64(b.off)), true, nil
	}
	// date / timestamp / timestamptz
	aTZ, bTZ := a.kind == dtTimestampTZ, b.kind == dtTimestampTZ
	if aTZ != bTZ {
		if !c.useTZ {
			return 0, false, tzRequired()
		}
		var e *refErr
		if !aTZ {
			a, e = c.cast(a, dtTimestampTZ)
		} else {
			b, e = c.cast(b, dtTimestampTZ)
		}
		if e != nil {
			return 0, false, e
		}
	}
	ad, an := a.instant()
	bd, bn := b.instant()
	if r := cmp64(ad, bd); r != 0 {
		return r, true, nil
	}
	return cmp64(an, bn), true, nil
}

var dtKindByName = map[string]dtKind{"date": dtDate, "time": dtTime, "time_tz": dtTimeTZ, "timestamp": dtTimestamp, "timestamp_tz": dtTimestampTZ}

func (c *refCtx) datetime(s *Expr, v any, k emitFn) *refErr {
	str, ok := v.(string)
	if !ok {
		return soft("datetime method can only be applied to a string")
	}
	if s.S == "datetime" && s.T != nil {
		return hard(".datetime(template) is not supported")
	}
	prec := -1
	if s.P != nil && s.S != "datetime" && s.S != "date" {
		if *s.P > 2147483647 {
			c.decline("time precision outside int32")
			return soft("time precision out of range")
		}
		prec = int(*s.P)
		if prec > 6 {
			prec = 6
		}
	}
	d, digits, ok := parseDT(str)
	if !ok {
		return soft("datetime format is not recognized")
	}
	if prec >= 0 && d.kind != dtDate {
		var crossed bool
		d, crossed = d.roundPrecision(prec)
		if crossed {
			c.decline("time rounding that crosses midnight")
		}
	} else if digits > 6 {
		c.decline("more than six fractional digits without a precision argument")
	}
	if s.S != "datetime" {
		var err *refErr
		d, err = c.cast(d, dtKindByName[s.S])
		if err != nil {
			return err
		}
	}
	return k(d)
}
