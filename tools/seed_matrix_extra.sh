#!/bin/bash
# usage: tools/seed_matrix_extra.sh "<check ids>" [seed ...] — appends the results of further checks to seeded/<seed>/caught.txt
cd /verif
extra="$1"; shift
seeds="$@"; [ -z "$seeds" ] && seeds=$(ls seeded | grep -E '^C[0-9]+-[A-Z]$')
for s in $seeds; do
  own=${s%%-*}
  for id in $extra; do
    [ "$id" = "$own" ] && continue
    grep -q "^== $id " seeded/$s/caught.txt 2>/dev/null && continue
    res=$(tools/try_seed.sh /verif/seeded/$s/patch.diff $id 2>&1 | grep '^== ' | head -1)
    echo "$res" >> seeded/$s/caught.txt
  done
  echo "$s: $(tr '\n' ';' < seeded/$s/caught.txt)"
done
