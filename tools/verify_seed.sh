#!/bin/bash
# usage: tools/verify_seed.sh <ID> <X> [demo-package-dir (default path)] [extra go test flags]
# Confirms in the scratch worktree /tmp/seed/<ID>: patch applies, whole suite passes with it, demo fails with it, demo passes without it.
set -u
export GOFLAGS=-mod=mod GOPROXY=off GOSUMDB=off GOTOOLCHAIN=local
id="$1"; x="$2"; pkg="${3:-path}"; flags="${4:-}"
src=/tmp/seed_out/$id/$x; wt=/tmp/seed/$id
[ -d "$wt" ] || git -C /repo worktree add -q --detach "$wt" HEAD
cd "$wt" || exit 2
git checkout -q --detach $(git -C /repo rev-parse HEAD) 2>/dev/null
git checkout -- . ; git clean -fdq
cp "$src/demo_test.go" "$wt/$pkg/zz_demo_test.go"
go test -vet=off -count=1 $flags ./$pkg/ >/tmp/vs_clean.log 2>&1; clean_rc=$?
rm -f "$wt/$pkg/zz_demo_test.go"
if ! git apply --3way "$src/patch.diff" 2>/tmp/vs_apply.log && ! git apply "$src/patch.diff" 2>>/tmp/vs_apply.log; then echo "APPLY-FAILED"; cat /tmp/vs_apply.log; git checkout -- .; exit 1; fi
git reset -q
go build ./... >/tmp/vs_build.log 2>&1; build_rc=$?
go test -vet=off -count=1 ./... >/tmp/vs_suite.log 2>&1; suite_rc=$?
cp "$src/demo_test.go" "$wt/$pkg/zz_demo_test.go"
go test -vet=off -count=1 $flags ./$pkg/ >/tmp/vs_mut.log 2>&1; mut_rc=$?
rm -f "$wt/$pkg/zz_demo_test.go"
git diff > /tmp/vs_rebased.diff
git checkout -- . ; git clean -fdq
echo "demo_on_clean_rc=$clean_rc build_with_patch_rc=$build_rc suite_with_patch_rc=$suite_rc demo_with_patch_rc=$mut_rc"
if [ $clean_rc -eq 0 ] && [ $build_rc -eq 0 ] && [ $suite_rc -eq 0 ] && [ $mut_rc -ne 0 ]; then
  d=/verif/seeded/$id-$x; mkdir -p $d
  cp /tmp/vs_rebased.diff $d/patch.diff; cp "$src/demo_test.go" $d/demo_test.go; cp "$src/notes.md" $d/notes.md 2>/dev/null
  echo "CONFIRMED -> $d"
else
  echo "NOT CONFIRMED"; tail -5 /tmp/vs_clean.log /tmp/vs_suite.log /tmp/vs_mut.log
fi
