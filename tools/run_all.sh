#!/bin/bash
# Runs the quick (or given tier) command of every claimed check against /repo, validates evidence, prints a summary.
tier=${1:-quick}
cd /verif
ids=$(python3 -c "import json;print(' '.join(c['property_id'] for c in json.load(open('MANIFEST.json'))['checks']))")
for id in $ids; do
  start=$(date +%s)
  out=$(./check $id --tier $tier 2>&1); rc=$?
  end=$(date +%s)
  echo "$id rc=$rc $((end-start))s $(echo "$out" | grep -c '^VIOLATION') violations; $(echo "$out" | grep -c '^KNOWN-FINDING') known | $(echo "$out" | tail -1 | cut -c1-160)"
done
python3-vt - <<'PY'
import json,jsonschema,glob
sch=json.load(open('/root/.vp/EVIDENCE.schema.json'))
bad=0
for f in sorted(glob.glob('/verif/evidence/*.json')):
    try: jsonschema.validate(json.load(open(f)),sch)
    except Exception as e: bad+=1; print(f,'INVALID',str(e)[:120])
print('evidence files invalid:',bad)
jsonschema.validate(json.load(open('/verif/MANIFEST.json')), json.load(open('/root/.vp/MANIFEST.schema.json')))
print('manifest valid')
PY
