// mutate enumerates small syntactic mutations of one Go source file.
//
//	mutate -count file.go            prints the number of mutation sites
//	mutate -n K -o out.go file.go    writes mutant K and prints a one-line description
//
// Used by tools/mutants.sh to measure which single-token changes of theory/sqljson survive both
// the repository's own test suite and the checks in /verif (mutation analysis of the checks).
package main

import (
	"flag"
	"fmt"
	"go/ast"
	"go/parser"
	"go/printer"
	"go/token"
	"os"
	"strconv"
)

type site struct {
	desc  string
	apply func()
}

var swaps = map[token.Token]token.Token{
	token.EQL: token.NEQ, token.NEQ: token.EQL, token.LSS: token.LEQ, token.LEQ: token.LSS, token.GTR: token.GEQ, token.GEQ: token.GTR,
	token.LAND: token.LOR, token.LOR: token.LAND, token.ADD: token.SUB, token.SUB: token.ADD, token.MUL: token.QUO, token.QUO: token.MUL,
}

func main() {
	count := flag.Bool("count", false, "print the number of sites")
	n := flag.Int("n", -1, "mutant index")
	out := flag.String("o", "", "output file")
	flag.Parse()
	file := flag.Arg(0)
	fset := token.NewFileSet()
	f, err := parser.ParseFile(fset, file, nil, parser.ParseComments)
	if err != nil {
		fmt.Fprintln(os.Stderr, err)
		os.Exit(2)
	}
	var sites []site
	pos := func(p token.Pos) string { return fmt.Sprintf("%s:%d", file, fset.Position(p).Line) }
	var visitBlock func(list []ast.Stmt)
	visitBlock = func(list []ast.Stmt) {
		for i, st := range list {
			i, st := i, st
			switch s := st.(type) {
			case *ast.ExprStmt, *ast.IncDecStmt, *ast.DeferStmt:
				sites = append(sites, site{pos(st.Pos()) + " delete statement", func() { list[i] = &ast.EmptyStmt{Semicolon: st.Pos()} }})
			case *ast.AssignStmt:
				if s.Tok != token.DEFINE {
					sites = append(sites, site{pos(st.Pos()) + " delete assignment", func() { list[i] = &ast.EmptyStmt{Semicolon: st.Pos()} }})
				}
			case *ast.BranchStmt:
				if s.Tok == token.BREAK || s.Tok == token.CONTINUE {
					sites = append(sites, site{pos(st.Pos()) + " delete " + s.Tok.String(), func() { list[i] = &ast.EmptyStmt{Semicolon: st.Pos()} }})
				}
			}
		}
	}
	ast.Inspect(f, func(node ast.Node) bool {
		switch x := node.(type) {
		case *ast.GenDecl:
			if x.Tok == token.CONST || x.Tok == token.VAR || x.Tok == token.IMPORT {
				return x.Tok == token.VAR // constants and imports are left alone
			}
		case *ast.BlockStmt:
			visitBlock(x.List)
		case *ast.CaseClause:
			visitBlock(x.Body)
		case *ast.BinaryExpr:
			if to, ok := swaps[x.Op]; ok {
				from := x.Op
				sites = append(sites, site{fmt.Sprintf("%s %s -> %s", pos(x.OpPos), from, to), func() { x.Op = to }})
			}
		case *ast.IfStmt:
			sites = append(sites, site{pos(x.Cond.Pos()) + " negate condition", func() { x.Cond = &ast.UnaryExpr{Op: token.NOT, X: &ast.ParenExpr{X: x.Cond}} }})
		case *ast.BasicLit:
			if x.Kind == token.INT {
				if v, err := strconv.ParseInt(x.Value, 0, 64); err == nil && v >= 0 && v <= 64 {
					old := x.Value
					nv := "1"
					if v == 1 {
						nv = "0"
					} else if v > 1 {
						nv = strconv.FormatInt(v+1, 10)
					}
					sites = append(sites, site{fmt.Sprintf("%s literal %s -> %s", pos(x.Pos()), old, nv), func() { x.Value = nv }})
				}
			}
		case *ast.Ident:
			if x.Name == "true" || x.Name == "false" {
				old := x.Name
				nv := "true"
				if old == "true" {
					nv = "false"
				}
				sites = append(sites, site{fmt.Sprintf("%s %s -> %s", pos(x.Pos()), old, nv), func() { x.Name = nv }})
			}
		case *ast.UnaryExpr:
			if x.Op == token.NOT {
				// !e -> !!e, i.e. the negation is dropped
				sites = append(sites, site{pos(x.Pos()) + " drop !", func() { x.X = &ast.UnaryExpr{Op: token.NOT, X: x.X} }})
			}
		}
		return true
	})
	if *count {
		fmt.Println(len(sites))
		return
	}
	if *n < 0 || *n >= len(sites) {
		fmt.Fprintln(os.Stderr, "index out of range")
		os.Exit(2)
	}
	sites[*n].apply()
	w, err := os.Create(*out)
	if err != nil {
		fmt.Fprintln(os.Stderr, err)
		os.Exit(2)
	}
	defer w.Close()
	if err := printer.Fprint(w, fset, f); err != nil {
		fmt.Fprintln(os.Stderr, err)
		os.Exit(2)
	}
	fmt.Println(sites[*n].desc)
}
