#!/bin/bash
# usage: tools/seed_matrix.sh [seed ...]   — for every seeded change runs its own property's check plus the checks given in
# EXTRA (space separated), records which checks report a violation in /verif/seeded/<seed>/caught.txt
cd /verif
seeds="$@"; [ -z "$seeds" ] && seeds=$(ls seeded | grep -E '^C[0-9]+-[A-Z]$')
claimed=$(python3 -c "import json;print(' '.join(c['property_id'] for c in json.load(open('/verif/MANIFEST.json'))['checks']))")
for s in $seeds; do
  own=${s%%-*}
  list="$own ${EXTRA:-}"
  : > seeded/$s/caught.txt
  for id in $list; do
    echo "$claimed" | grep -qw "$id" || { echo "$id not-built" >> seeded/$s/caught.txt; continue; }
    res=$(tools/try_seed.sh /verif/seeded/$s/patch.diff $id 2>&1 | grep '^== ' | head -1)
    echo "$res" >> seeded/$s/caught.txt
  done
  echo "$s: $(tr '\n' ';' < seeded/$s/caught.txt)"
done
