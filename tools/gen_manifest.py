#!/usr/bin/env python3
"""Regenerates /verif/MANIFEST.json from the table below (single source of truth)."""
import json, os

BASELINE_OFF = "cd /repo && GOFLAGS=-mod=mod GOPROXY=off GOSUMDB=off GOTOOLCHAIN=local go test -json -vet=off -count=1 -timeout 25m ./..."

# id -> (category, engine, technique, text, note, design_ref)
CHECKS = {
 "C20": ("fault_enumeration", "poll-fault",
  "exhaustive fault-point enumeration: cancellation injected at every ctx.Done() poll index of every run",
  "For every (path, document) of a pool covering all node kinds (plus generated paths), every entry point, both context errors, silent and verbose: the context reports done from the k-th poll, for every k in 0..n. Exhaustive in k; bounded in paths/documents.",
  "Trusts that the executor observes cancellation only through ctx.Done()/ctx.Err(); programs and documents outside the pool/generated space are not covered.",
  "DESIGN.md §3 C20"),
}

PENDING = {}

def main():
    ids = ["C%02d" % i for i in range(1, 21)]
    checks = []
    for cid in ids:
        if cid not in CHECKS:
            continue
        cat, engine, tech, text, note, ref = CHECKS[cid]
        checks.append({
            "property_id": cid,
            "quick_cmd": "./check %s --tier quick" % cid,
            "thorough_cmd": "./check %s --tier thorough" % cid,
            "evidence_file": "/verif/evidence/%s.json" % cid,
            "replay_cmd_template": "./check %s --replay {path}" % cid,
            "engine": engine,
            "level_claimed": {"category": cat, "text": text, "design_ref": ref},
            "level_note": note,
            "technique": tech,
        })
    na = [{"property_id": cid, "reason": PENDING.get(cid, "check not built yet (work in progress; see DESIGN.md §3 for the planned exhaustive check)")}
          for cid in ids if cid not in CHECKS]
    m = {
        "version": 1,
        "setup_cmd": "cd /verif && ./setup.sh",
        "hooks": {
            "guard": "verif",
            "enable": "go build -tags verif (the ./check wrapper builds the harness module /verif/mc, which replaces github.com/theory/sqljson with /repo, with -tags verif)",
            "baseline_off_cmd": BASELINE_OFF,
            "source_commits": ["b049178"],
            "add_only": True,
        },
        "engines": [
            {"name": "ref-conformance", "path": "/verif/mc", "serves_properties": [], "kind_free_text": "bounded exhaustive enumeration of programs x documents x configurations against a reference interpreter / relations between real executions"},
            {"name": "poll-fault", "path": "/verif/mc/c20.go", "serves_properties": ["C20"], "kind_free_text": "fault-point enumeration over context polls"},
        ],
        "checks": checks,
        "not_applicable": na,
        "notes": "All checks are subcommands of one Go binary rebuilt from /repo's working tree by ./check. Known findings: /verif/KNOWN_FINDINGS.txt.",
    }
    for e in m["engines"]:
        if e["name"] == "ref-conformance":
            e["serves_properties"] = [c["property_id"] for c in checks if c["engine"] == "ref-conformance"]
    with open(os.path.join(os.path.dirname(__file__), "..", "MANIFEST.json"), "w") as f:
        json.dump(m, f, indent=1)
        f.write("\n")

if __name__ == "__main__":
    main()
