#!/usr/bin/env python3
"""Regenerates /verif/MANIFEST.json from the table below (single source of truth)."""
import json, os

BASELINE_OFF = "cd /repo && GOFLAGS=-mod=mod GOPROXY=off GOSUMDB=off GOTOOLCHAIN=local go test -json -vet=off -count=1 -timeout 25m ./..."

# id -> (category, engine, technique, text, note, design_ref)
CHECKS = {
 "C20": ("fault_enumeration", "poll-fault",
  "exhaustive fault-point enumeration: cancellation injected at every ctx.Done() poll index of every run",
  "For every (path, document) of a pool covering all node kinds (plus generated paths), every entry point, three kinds of ended context (Canceled, DeadlineExceeded, cancel-with-cause), silent and verbose: the context reports done from the k-th poll, for every k in 0..n. Exhaustive in k; bounded in paths/documents.",
  "Trusts that the executor observes cancellation only through ctx.Done()/ctx.Err(); programs and documents outside the pool/generated space are not covered.",
  "DESIGN.md §3 C20"),
 "C07": ("model_checking", "ref-conformance",
  "bounded exhaustive enumeration of accessor/filter programs x documents against a reference interpreter (explicit program/state enumeration, no sampling)",
  "Every chain of <=3 (thorough: 4 on a smaller universe) steps over a 27-step accessor/filter alphabet x every JSON document with <=4 (thorough 5) nodes over {null,1} x both modes x both number decodings, against the reference model: lax never errs and returns the reference items; strict errs suppressibly exactly when the reference's complete evaluation meets a structural mismatch.",
  "Trusts the reference model (DESIGN.md Appendix A) and small-scope: chains, documents and subscript lists beyond the bounds are not covered.",
  "DESIGN.md §3 C07"),
 "C14": ("model_checking", "ref-conformance",
  "bounded exhaustive enumeration of arrays x subscript lists against slice arithmetic (reference model)",
  "All 781 arrays of length 0..4 over {null,1,\"a\",[2],{\"a\":3}} plus non-arrays x all single/range/list subscripts over bounds -2..6, fractions, last, last+-k, nested subscripts and every non-numeric / non-singleton / out-of-int32 subscript x modes x decodings x silent/verbose, compared with slice arithmetic written from the statement.",
  "Arrays longer than 4 and lists longer than 2 (3 in thorough) subscripts are not covered; the subscript-drops-null defect is a recorded known finding.",
  "DESIGN.md §3 C14"),
 "C15": ("model_checking", "ref-conformance",
  "bounded exhaustive enumeration of JSON trees x wildcard/recursive-descent bounds against an explicit tree walk",
  "Every JSON tree with <=5 (thorough 7) nodes, leaves relabelled by pre-order index x .*, [*], .**{a to b} for all a,b in {0..4,last}, alone and followed by one more accessor x modes x decodings, compared with an explicit depth-annotated tree walk, plus .** == .**{0 to last} as a relation between real executions.",
  "Trees beyond the node bound and level bounds beyond 4 are not covered; member order of multi-member objects compared as multisets.",
  "DESIGN.md §3 C15"),
 "C09": ("model_checking", "step-graph",
  "explicit-state exploration over the real step function: depth-first over every chain of steps per document, state = produced item sequence, every transition validated against per-item composition; register-restoration programs against the reference model",
  "For every document (<=4 nodes) and both modes, every chain of <=3 (thorough 4) steps over a 34-step alphabet is executed on the real code; each transition Query(P.s,d) must equal the concatenation over the items x of Query(P,d) of Query($.s,x), failing iff one of them fails. Variable/literal starts, keyvalue base-object restoration and @/last/$ restoration after nested constructs (all operand orders) are enumerated as well.",
  "Strict-mode steps after .** are excluded as the property says; keyvalue ids are masked; chains and documents beyond the bounds are not covered.",
  "DESIGN.md §3 C09"),
 "C10": ("model_checking", "ref-conformance",
  "bounded exhaustive enumeration of prefix x condition x document; oracle = relation between three real executions plus the reference interpreter",
  "Every prefix (10) x every condition of a generated pool (31 base conditions of every predicate kind incl. nested filters, soft and hard errors; negations, is-unknown, all ordered pairs under && and ||) x every document (<=3 nodes; thorough 4) x both modes: Query(P ? (C)) must be the order-preserving subsequence of P's (lax-unwrapped) items for which C[@:=$] as a predicate check is true; hard errors abort; containers pointer-identical; strict consecutive filters equal their conjunction; all cross-checked against the reference model.",
  "Conditions and prefixes outside the generated pools are not covered.",
  "DESIGN.md §3 C10"),
 "C11": ("model_checking", "ref-conformance",
  "complete truth-table enumeration (every operand assignment x every realisation pair x every context x both modes) and exhaustive law checking over condition pairs",
  "All 16 (4 for unary) operand assignments over {T,F,U,hard error} for &&, ||, !, is unknown, each outcome realised by every member of a 9-13 member family (so every ordered pair of realisations), observed through Query, Match, a filter, exists(filter) and filter+is unknown in both modes, against the Kleene tables; then commutativity, double negation, De Morgan, is-unknown two-valuedness and the tables themselves over all ordered pairs of a 75-condition pool x all documents, as predicate checks and inside filters.",
  "Conditions outside the families/pools are not covered; with a hard-error operand either the error or the value decided by the other operand is accepted.",
  "DESIGN.md §3 C11"),
 "C12": ("model_checking", "ref-conformance",
  "exhaustive pair/triple enumeration over a value corpus: order axioms checked on the recorded comparison table of the real implementation and against a reference order",
  "All ordered pairs of a ~100-value corpus (every type; numbers at 0, +-1, 2^31, 2^53+-1, 2^63 and negative fractions in int64/float64/json.Number; byte-order witnesses; five datetime kinds; containers) x six operators x both orders x both modes x three deliveries: reference order, trichotomy, duality, unions, null rules, incomparability; all triples for transitivity; all pairs of sequences of <=2 values for the lax-existential / strict-unknown rule; starts with and like_regex against Go strings/regexp over full products of small corpora.",
  "Values outside the corpus are not covered; datetime comparisons under non-UTC context zones are covered by C17.",
  "DESIGN.md §3 C12"),
 "C13": ("model_checking", "ref-conformance",
  "exhaustive pair enumeration over a boundary corpus in three numeric representations against math/big exact arithmetic",
  "All ordered pairs of ~110 operand representations (0, +-1, int32/int64 limits and neighbours, 2^53 neighbours, sqrt(2^63) neighbours, fractions, huge/tiny doubles; int64, float64, json.Number incl. exponent spellings) x five operators x both modes x three deliveries, both unary operators, operand-sequence rule, and the identities -(-x)=x, x+y=y+x, x*y=y*x.",
  "Operands outside the corpus are not covered; where the exact integer result does not fit int64 either the IEEE double or a suppressible error is accepted.",
  "DESIGN.md §3 C13"),
 "C01": ("model_checking", "ref-conformance",
  "bounded exhaustive enumeration of programs x documents x configurations against a reference interpreter of the documented rules",
  "Every abstract path with <=3 (thorough 4) nodes over the full language plus every construct nested in filters and subscripts, both modes, x every JSON document with <=3 nodes plus 27 special documents x {float64, json.Number} x {verbose, silent} x variable bindings x {WithTZ, context zone}: Query's items (ordered; multiset where member order is open) and error class must equal the reference interpreter's.",
  "Trusts the reference model (DESIGN.md Appendix A); cases it declines (open points of the documentation) are counted in oracle_declined; programs/documents beyond the bounds are not covered; three recorded defects are classified by emulation.",
  "DESIGN.md §3 C01"),
 "C05": ("model_checking", "ref-conformance",
  "bounded exhaustive enumeration of programs x inputs x configurations with invariants checked on every real execution of all five entry points, plus a complete operator/method x type-pair matrix incl. hostile json.Number spellings",
  "Invariants on every execution (no panic; error nil / wraps ErrExecution / NULL only from Exists-Match-ExistsOrMatch; never ErrInvalid; document and variables equal an independent fresh decode; results finite; returned containers pointer-identical to input sub-values or keyvalue triples) over the full-language space (<=3 nodes), nested constructs and error-family chains x 59 documents, and over every operator/connective/filter/subscript on every ordered pair of 31 operand kinds (13 types + 16 hostile numbers) and every method/accessor on every kind, both modes, verbose/silent, with/without WithTZ.",
  "Inputs outside the enumerated spaces are not covered; one recorded ErrInvalid defect (datetime vs non-datetime) is a known finding.",
  "DESIGN.md §3 C05"),
 "C06": ("model_checking", "ref-conformance",
  "bounded exhaustive enumeration; oracle = relations between the five real entry points run on identical inputs",
  "Over the full-language space (<=3 nodes), nested constructs and error-family chains/operators (failing element at every position, soft and hard failures before/after/instead of items) x 59 documents x decodings x WithTZ, verbose and silent: First = Query[0]/nil with the same error; Query ok => Exists = non-empty; no items => Exists not true; strict Exists never hides Query's error; Match = sole boolean / NULL / single-boolean-expected; ExistsOrMatch dispatches on IsPredicate.",
  "Relations whose outcome depends on the open member order of multi-member objects are skipped where a failure is involved; paths/documents beyond the bounds are not covered.",
  "DESIGN.md §3 C06"),
 "C08": ("model_checking", "ref-conformance",
  "bounded exhaustive enumeration of verbose/silent pairs of real executions of every entry point, plus the reference interpreter for error existence/class and the items found before a failure",
  "Same space as C06 plus every predicate kind followed by an erroring step and operands that yield items before failing: silent never returns ErrVerbose; successful runs unchanged; suppressible error => no error with the reference's prefix of items (Query/First) or NULL unless established (Exists/Match); non-suppressible errors (unknown variable, tz-requiring cast, datetime template, invalid decimal precision/scale) keep their class; the verbose run still reports the enclosing path's own error after any predicate.",
  "Cancellation as a non-suppressible error is covered by C20; order-dependent cases (multi-member objects) are declined.",
  "DESIGN.md §3 C08"),
 "C02": ("model_checking", "lex-parse",
  "bounded exhaustive enumeration of programs/strings; oracle = relation between real executions (Parse, String, re-Parse, marshalling, Query) checked on every accepted input",
  "Round trip Parse -> String -> Parse (tree through exported accessors incl. IntegerNode vs NumericNode, mode, predicate flag; fixed point; Text/Binary/Value-Scan round trips incl. decoding into an already used Path; same Query results on 29 documents) over the full language (<=3 nodes), nested constructs, every precedence/associativity shape with and without trailing accessors, the numeric spelling grid, a boundary set of code points (thorough: every Unicode scalar value) in 9 roles and all ordered pairs of a 39-rune set, all .** bound pairs, all flag strings, and every input the implementation accepts among all strings of length <=4 (thorough 5) over a 49-symbol alphabet and all lexeme sequences of length <=3.",
  "Texts outside the enumerations are not covered; the integral-numeric printing defect is a recorded known finding.",
  "DESIGN.md §3 C02"),
 "C03": ("model_checking", "lex-parse",
  "bounded exhaustive enumeration of spellings of abstract paths, trees compared with the generating abstract path; plus tree agreement with an independent recursive-descent parser on exhaustive string enumerations",
  "Every escape spelling of every code point of a boundary set (thorough: every Unicode scalar value) in 5 quoted roles and as identifier escapes x 12 followers incl. end of input; a numeric grid in every base/underscore/exponent form x 11 positions; every case pattern of every keyword; != vs <>; every operator pair (thorough triple) under minimal/full/redundant parentheses; white space and comments at every token boundary of 130 seeds; IsPredicate/PgIndexOperator; plus refparse tree agreement on all strings of length <=3 (thorough 4), lexeme sequences, single edits and near-miss numeric/escape strings.",
  "Trusts refparse (mc/refparse.go) and the harness's abstract-path generator as the models of the documented syntax; spellings outside the enumerations are not covered.",
  "DESIGN.md §3 C03"),
 "C04": ("model_checking", "lex-parse",
  "exhaustive enumeration of strings up to a length bound over a lexer-derived alphabet, lexeme sequences, all single-byte edits of seeds and systematic near-misses; invariants on every execution plus accept/reject agreement with an independent recogniser",
  "11.6 million inputs in the quick tier (all strings of length <=4 over 49 symbols, lexeme sequences <=3, every single-byte substitution/insertion/deletion of 130 seeds, numeric-looking strings, escape tails, prefixes, invalid UTF-8 pairs, regex flags/patterns, limit literals under 26 wrappings, @/last placements): no panic, exactly one of (path,error), error chains, MustParse, Scan/UnmarshalText/UnmarshalBinary, accept/reject agreement with refparse, every accepted like_regex compiles, 60 s hang watchdog.",
  "Inputs longer than the bounds that are not within one edit of a seed are not covered; runaway allocation is not sandboxed (no subprocess/ulimit); refparse declines a few forms the documentation leaves open.",
  "DESIGN.md §3 C04"),
 "C16": ("model_checking", "ref-conformance",
  "bounded exhaustive enumeration of method x input-kind x boundary-grid x representation (thorough: the whole .decimal(p,s) domain) against a math/big reference; relations for .string() round trips and keyvalue ids",
  "12 methods and .decimal with 41 precision/scale combinations (thorough: all 2,001,000 (p,s) pairs x 12 values) x ~270 inputs (48 boundary numbers as float64/json.Number/string, hostile spellings, 48 strings, containers), direct and after [*], both modes, verbose/silent, against the reference (accepted kinds, suppressible errors, correct rounding, mandatory range errors); .string() converts back; keyvalue triples, ids equal within an object, distinct across objects, stable over three executions and independent of earlier failing evaluation.",
  "Values outside the grid are not covered; string forms the documentation leaves open (hex floats, blanks, abbreviated boolean words) are declined.",
  "DESIGN.md §3 C16"),
 "C17": ("model_checking", "ref-conformance",
  "bounded exhaustive enumeration of a datetime string grid x methods x precisions x WithTZ x context zones against a reference civil-time model; all pairs/triples of a comparison grid for order axioms and cast coherence",
  "About 2,000 (thorough 10,000) datetime strings (5 kinds, year/day boundaries, New York DST days and hours, 0..9 fractional digits with carries, offsets -12..+14 incl. half hours in every spelling, unrecognised forms) x 6 methods x precisions 0..7/absent x {WithTZ, not} x 6 context zones; all ordered pairs of a 32-value grid x 6 operators x zones: reference order, antisymmetry, comparison = comparison after explicit casts, time vs date/timestamp unknown; all triples for transitivity.",
  "Go's tz database is trusted for the offset of a zone at an instant; time->timetz casts under DST zones (depend on time.Now), >6 fractional digits without precision, and local-mean-time offsets are declined.",
  "DESIGN.md §3 C17"),
 "C18": ("model_checking", "ref-conformance",
  "bounded exhaustive enumeration of datetime values (grid) and of byte strings fed to UnmarshalJSON; inverse-function relations on the real types package",
  "Every grid value of the five Go types (9 dates, 4 clocks, 9 nanosecond patterns, whole-minute offsets -12:00..+14:00 in 15/45-minute steps plus odd minutes): String() equals a reference ISO-8601 printer, ParseTime(String(v)) and json round trips are identities, .string() in a path prints the same; UnmarshalJSON (direct and via encoding/json) never panics on every byte string of length <=3 over 20 bytes, every prefix/suffix/single-byte edit of 8 valid encodings and all JSON token kinds; date->timestamptz->date and timestamp->timestamptz->timestamp identities for every grid value and every minute-pattern of 6 DST-transition days x 8 context zones where the local time exists.",
  "Years outside 1..9999 and offsets with seconds are outside the property; Go's tz database is trusted.",
  "DESIGN.md §3 C18"),
 "C19": ("model_checking", "scheduler",
  "stateless schedule exploration: controlled cooperative scheduler over real goroutines, depth-first over all interleavings with a bounded number of preemptions; explicit-state BFS over call histories (12 operations incl. a corpus of other Paths, Parse by another holder, calls without WithTZ) with a reflect fingerprint as state hash, every history of <= 2 calls extended regardless, results compared with the same call run alone in a fresh process",
  "864 two- and three-thread scenarios (every pair of entry points on one shared *Path for 28 pool paths, every pair of pool paths sharing document and variables, triples of a core) plus 30 token-level concurrent Parse scenarios; all schedules with <=2 (thorough 3) preemptions (530,000 complete executions in the quick tier); every call must return its solo result and leave document/variables (incl. hidden slice capacity) untouched; BFS over call histories per Path (fixpoint reached at depth 1 on this tree: one state); determinism on fresh inputs; supplementary free-running race-detector pass.",
  "A data race that never changes a result (a write undone before the next yield point, or a benign unsynchronised cache) is invisible to the exhaustive parts and is caught only by the schedule-sampled race pass; lax Exists over multi-member wildcards is not scheduled (unowned map-order nondeterminism).",
  "DESIGN.md §3 C19"),
}

PENDING = {}

def main():
    ids = ["C%02d" % i for i in range(1, 21)]
    checks = []
    for cid in ids:
        if cid not in CHECKS:
            continue
        cat, engine, tech, text, note, ref = CHECKS[cid]
        checks.append({
            "property_id": cid,
            "quick_cmd": "./check %s --tier quick" % cid,
            "thorough_cmd": "./check %s --tier thorough" % cid,
            "evidence_file": "/verif/evidence/%s.json" % cid,
            "replay_cmd_template": "./check %s --replay {path}" % cid,
            "engine": engine,
            "level_claimed": {"category": cat, "text": text, "design_ref": ref},
            "level_note": note,
            "technique": tech,
        })
    na = [{"property_id": cid, "reason": PENDING.get(cid, "check not built yet (work in progress; see DESIGN.md §3 for the planned exhaustive check)")}
          for cid in ids if cid not in CHECKS]
    m = {
        "version": 1,
        "setup_cmd": "cd /verif && ./setup.sh",
        "hooks": {
            "guard": "verif",
            "enable": "go build -tags verif (the ./check wrapper builds the harness module /verif/mc, which replaces github.com/theory/sqljson with /repo, with -tags verif); hooks: parser.VerifHook (top of lexer.Lex) and ast.VerifHook (top of every node's writeTo), both no-ops without the tag",
            "baseline_off_cmd": BASELINE_OFF,
            "source_commits": ["b049178", "e305389"],
            "add_only": True,
        },
        "engines": [
            {"name": "ref-conformance", "path": "/verif/mc", "serves_properties": [], "kind_free_text": "bounded exhaustive enumeration of programs x documents x configurations against a reference interpreter / relations between real executions"},
            {"name": "lex-parse", "path": "/verif/mc/refparse.go", "serves_properties": ["C02", "C03", "C04"], "kind_free_text": "exhaustive string/spelling enumeration against an independent recursive-descent parser and round-trip relations"},
            {"name": "step-graph", "path": "/verif/mc/c09.go", "serves_properties": ["C09"], "kind_free_text": "explicit-state exploration whose transition function is the real Query"},
            {"name": "scheduler", "path": "/verif/mc/sched.go", "serves_properties": ["C19"], "kind_free_text": "controlled cooperative scheduler + DFS over schedules with a preemption bound; history BFS with fingerprint state hash"},
            {"name": "poll-fault", "path": "/verif/mc/c20.go", "serves_properties": ["C20"], "kind_free_text": "fault-point enumeration over context polls"},
        ],
        "checks": checks,
        "not_applicable": na,
        "notes": "All checks are subcommands of one Go binary rebuilt from /repo's working tree by ./check. Known findings: /verif/KNOWN_FINDINGS.txt.",
    }
    for e in m["engines"]:
        if e["name"] == "ref-conformance":
            e["serves_properties"] = [c["property_id"] for c in checks if c["engine"] == "ref-conformance"]
    with open(os.path.join(os.path.dirname(__file__), "..", "MANIFEST.json"), "w") as f:
        json.dump(m, f, indent=1)
        f.write("\n")

if __name__ == "__main__":
    main()
