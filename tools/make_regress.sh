#!/bin/bash
# For every "fixed:" entry of KNOWN_FINDINGS.txt: revert that commit in a scratch worktree, run the property's quick
# check against it, and keep up to three of the smallest replay files as regression witnesses
# (/verif/replays/regress/<ID>-<commit>-<n>.json). Shows that each check reports the defect it led to repairing.
cd /verif; mkdir -p replays/regress
grep '^fixed:' KNOWN_FINDINGS.txt | while read -r _ prop h rest; do
  id=${prop#property=}
  ls replays/regress/$id-$h-*.json >/dev/null 2>&1 && { echo "$id $h: already have witnesses"; continue; }
  wt=$(mktemp -d /tmp/regress.XXXXXX); rmdir $wt
  git -C /repo worktree add -q --detach $wt HEAD || continue
  if ! git -C $wt revert --no-commit $h >/dev/null 2>&1; then echo "$id $h: revert conflicts, skipped"; git -C /repo worktree remove --force $wt; continue; fi
  if ! (cd $wt && GOFLAGS=-mod=mod GOPROXY=off GOSUMDB=off GOTOOLCHAIN=local go build ./... >/dev/null 2>&1); then echo "$id $h: reverted tree does not build, skipped"; git -C /repo worktree remove --force $wt; continue; fi
  rd=/tmp/regress_replays_$h; rm -rf $rd
  out=$(VERIF_REPO=$wt VERIF_EVIDENCE_DIR=/tmp/seed_evidence VERIF_REPLAY_DIR=$rd ./check $id --tier quick 2>&1); rc=$?
  n=0
  if [ -d $rd ]; then
    for f in $(ls -S -r $rd/*.json 2>/dev/null | head -3); do n=$((n+1)); cp $f replays/regress/$id-$h-$n.json; done
  fi
  echo "$id $h: exit=$rc witnesses=$n"
  rm -rf $rd; git -C /repo worktree remove --force $wt
done
