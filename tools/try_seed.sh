#!/bin/bash
# usage: tools/try_seed.sh <patch.diff> <check id>...
# Applies a seeded change to a scratch worktree of /repo (never to /repo itself), runs the quick checks
# against that worktree (VERIF_REPO), removes the worktree. Evidence of trial runs goes to /tmp.
set -u
patch="$1"; shift
wt=$(mktemp -d /tmp/seedtrial.XXXXXX)
rmdir "$wt"
git -C /repo worktree add -q --detach "$wt" HEAD || exit 2
cleanup() { git -C /repo worktree remove --force "$wt" 2>/dev/null; }
trap cleanup EXIT
cd "$wt" || exit 2
if ! git apply --3way "$patch" 2>/tmp/apply.err && ! git apply "$patch" 2>>/tmp/apply.err; then echo "patch does not apply"; cat /tmp/apply.err; exit 2; fi
for id in "$@"; do
  out=$(cd /verif && VERIF_REPO="$wt" VERIF_EVIDENCE_DIR=/tmp/seed_evidence VERIF_REPLAY_DIR=/tmp/seed_replays ./check "$id" --tier quick 2>&1)
  rc=$?
  nv=$(echo "$out" | grep -c '^VIOLATION')
  echo "== $id exit=$rc violations=$nv"
  echo "$out" | grep -A4 '^VIOLATION' | head -12 | cut -c1-300
done
