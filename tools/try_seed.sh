#!/bin/bash
# usage: tools/try_seed.sh <patch.diff> <check id>...   — applies a seeded change to /repo, runs quick checks, reverts.
set -u
patch="$1"; shift
cd /repo || exit 2
if [ -n "$(git status --porcelain)" ]; then echo "/repo not clean"; exit 2; fi
if ! git apply --3way "$patch" 2>/tmp/apply.err && ! git apply "$patch" 2>>/tmp/apply.err; then echo "patch does not apply"; cat /tmp/apply.err; git checkout -- . ; exit 2; fi
git reset -q 2>/dev/null
for id in "$@"; do
  out=$(cd /verif && VERIF_EVIDENCE_DIR=/tmp/seed_evidence ./check "$id" --tier quick 2>&1)
  rc=$?
  nv=$(echo "$out" | grep -c '^VIOLATION')
  echo "== $id exit=$rc violations=$nv"
  echo "$out" | grep -A4 '^VIOLATION' | head -12 | cut -c1-300
done
git checkout -- . ; git clean -fdq
