#!/bin/bash
# usage: tools/mutants_recheck.sh "<check ids>" [file-substring]
# Runs further checks (fail-fast) against the mutants recorded as "checked: SURVIVED-ALL" in /verif/mutants/*.tsv
# (the first pass maps each source file to a subset of the checks) and updates the verdicts.
set -u
export GOFLAGS=-mod=mod GOPROXY=off GOSUMDB=off GOTOOLCHAIN=local
cd /verif; ids="$1"; pat="${2:-}"; work=/tmp/mut
for out in mutants/*.tsv; do
  f=$(basename $out .tsv | sed 's#_#/#g'); [ -f /repo/$f ] || f=$(echo "$f" | sed 's#parse/time#parse_time#')
  [ -f /repo/$f ] || continue
  case "$f" in *"$pat"*) ;; *) continue;; esac
  grep -P '\tchecked: SURVIVED-ALL' $out | while IFS=$'\t' read -r k desc st; do
    d=$work/rechk.$$; rm -rf $d; mkdir -p $d
    /verif/.bin/mutate -n $k -o $d/m.go /repo/$f >/dev/null
    printf '{"Replace":{"/repo/%s":"%s/m.go"}}' "$f" "$d" > $d/overlay.json
    caught=""
    for id in $ids; do
      o=$(VERIF_OVERLAY=$d/overlay.json VERIF_FAIL_FAST=1 VERIF_EVIDENCE_DIR=/tmp/mut_evidence VERIF_REPLAY_DIR=/tmp/mut_replays timeout 900 ./check $id 2>/dev/null); rc=$?
      if [ $rc -ne 0 ]; then caught="$id(rc=$rc) $(echo "$o" | grep -m1 '  sig=' | cut -c1-120)"; break; fi
    done
    if [ -n "$caught" ]; then
      echo -e "$k\t$desc\t$caught"
      python3 - "$out" "$k" "$caught" <<'PY'
import sys
out,k,caught=sys.argv[1:4]
lines=open(out).read().split('\n')
for i,l in enumerate(lines):
    p=l.split('\t')
    if len(p)>=3 and p[0]==k and 'SURVIVED-ALL' in p[2]:
        p[2]='checked: '+caught
        lines[i]='\t'.join(p)
open(out,'w').write('\n'.join(lines))
PY
    else
      echo -e "$k\t$desc\tstill SURVIVED-ALL ($ids)"
    fi
    rm -rf $d
  done
done
