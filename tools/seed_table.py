#!/usr/bin/env python3
"""Fills the seeded-change table of DESIGN.md and writes seeded/<id>/meta.json from caught.txt + notes.md."""
import json, os, re, glob
root='/verif/seeded'
rows=[]
for d in sorted(glob.glob(root+'/C??-?')):
    sid=os.path.basename(d)
    prop=sid.split('-')[0]
    caught={}
    p=os.path.join(d,'caught.txt')
    if os.path.exists(p):
        for line in open(p):
            m=re.match(r'== (C\d+) exit=(\d+) violations=(\d+)', line.strip())
            if m: caught[m.group(1)]=(int(m.group(2)), int(m.group(3)))
    notes=open(os.path.join(d,'notes.md')).read() if os.path.exists(os.path.join(d,'notes.md')) else ''
    files=sorted(set(re.findall(r'^\+\+\+ b/(\S+)', open(os.path.join(d,'patch.diff')).read(), re.M)))
    first=[l.strip('# ').strip() for l in notes.splitlines() if l.strip()][:1]
    meta={
        'property': prop,
        'seed': sid,
        'files_changed': files,
        'summary': first[0] if first else '',
        'needs_to_manifest': 'see notes.md (written by the independent sub-agent that produced the change)',
        'confirmed_by': 'tools/verify_seed.sh: patch applies to /repo HEAD in a scratch worktree; whole existing suite passes with it; demo_test.go fails with it and passes without it',
        'checks_run': {k: {'exit': v[0], 'violation_signatures': v[1]} for k,v in caught.items()},
        'caught_by': sorted(k for k,v in caught.items() if v[0]==1),
    }
    json.dump(meta, open(os.path.join(d,'meta.json'),'w'), indent=1)
    rows.append((sid, ', '.join(files), meta['summary'][:90], ', '.join(meta['caught_by']) or '—', ', '.join(k for k,v in caught.items() if v[0]==0) or ''))
tbl=['| seed | file(s) | change | caught by | run without alarm |','|---|---|---|---|---|']
for r in rows: tbl.append('| %s | %s | %s | %s | %s |' % r)
s=open('/verif/DESIGN.md').read()
b,e='<!-- SEED-TABLE-BEGIN -->','<!-- SEED-TABLE-END -->'
s=s[:s.index(b)+len(b)]+'\n'+'\n'.join(tbl)+'\n'+s[s.index(e):]
open('/verif/DESIGN.md','w').write(s)
print(len(rows),'seeds; not caught by own check:',[r[0] for r in rows if r[0].split('-')[0] not in r[3]])
