#!/bin/bash
# Mutation analysis of the checks: which single-token changes of theory/sqljson survive the repository's
# own test suite, and which of those survive the checks of /verif as well?
#   tools/mutants.sh suite <repo-relative file>...   phase 1: every mutant of the files: builds? killed by the suite?
#   tools/mutants.sh checks [file-substring]         phase 2: every suite survivor against the mapped checks (fail-fast)
# Results: /verif/mutants/<file>.tsv  (index, description, status). /repo is never touched (go build -overlay).
set -u
export GOFLAGS=-mod=mod GOPROXY=off GOSUMDB=off GOTOOLCHAIN=local
cd /verif; mkdir -p mutants .bin
[ -x .bin/mutate ] || (cd tools/mutate && go build -o /verif/.bin/mutate .)
work=/tmp/mut; mkdir -p $work

one_suite() { # file index
  f="$1"; k="$2"; name=$(echo "$f" | tr '/' '_'); d=$work/$name.$k; mkdir -p $d
  desc=$(/verif/.bin/mutate -n $k -o $d/m.go /repo/$f 2>/dev/null) || { echo -e "$k\t?\tmutate-error"; rm -rf $d; return; }
  printf '{"Replace":{"/repo/%s":"%s/m.go"}}' "$f" "$d" > $d/overlay.json
  if ! (cd /repo && go build -overlay $d/overlay.json ./... ) >/dev/null 2>&1; then echo -e "$k\t$desc\tnobuild"; rm -rf $d; return; fi
  if (cd /repo && timeout 300 go test -overlay $d/overlay.json -vet=off -count=1 ./... ) >/dev/null 2>&1; then echo -e "$k\t$desc\tsurvived-suite"; else echo -e "$k\t$desc\tkilled-by-suite"; fi
  rm -rf $d
}
export -f one_suite; export work

checks_for() {
  case "$1" in
    path/exec/array.go) echo "C14 C07 C01 C09 C06 C08 C05 C10 C15 C20";;
    path/exec/boolean.go) echo "C11 C10 C01 C09 C08 C06 C05 C20";;
    path/exec/compare.go) echo "C12 C01 C17 C11 C08 C05 C06";;
    path/exec/const.go) echo "C01 C09 C14 C05 C06 C08";;
    path/exec/datetime.go) echo "C17 C18 C01 C12 C08 C05 C19";;
    path/exec/exec.go|path/exec/execution.go) echo "C06 C01 C08 C05 C20 C07 C09 C19 C10";;
    path/exec/keyvalue.go) echo "C16 C09 C01 C06 C08 C10 C05";;
    path/exec/literal.go) echo "C01 C08 C09 C10 C05 C06";;
    path/exec/math.go) echo "C13 C01 C16 C08 C06 C05 C12";;
    path/exec/method.go) echo "C16 C01 C13 C08 C06 C05 C17";;
    path/exec/op.go) echo "C01 C15 C07 C10 C09 C08 C06 C05 C20 C12";;
    path/exec/predicate.go) echo "C01 C10 C11 C12 C08 C09 C06 C05";;
    path/exec/util.go) echo "C14 C16 C01 C13 C07 C05";;
    path/ast/ast.go) echo "C02 C03 C04 C01 C19 C16";;
    path/parser/*) echo "C03 C04 C02 C19";;
    path/types/*) echo "C18 C17 C12 C16 C01";;
    path/path.go) echo "C06 C02 C19 C05 C01";;
    *) echo "C01";;
  esac
}

case "${1:-}" in
suite)
  shift
  for f in "$@"; do
    n=$(/verif/.bin/mutate -count /repo/$f); out=mutants/$(echo "$f" | tr '/' '_').tsv
    echo "== $f: $n mutants" >&2
    seq 0 $((n-1)) | xargs -P ${MUT_JOBS:-5} -I{} bash -c "one_suite $f {}" | sort -n > $out
    echo "$f: $(grep -c survived-suite $out) survive the suite, $(grep -c killed-by-suite $out) killed, $(grep -c nobuild $out) do not build" >&2
  done;;
checks)
  pat="${2:-}"
  for out in mutants/*.tsv; do
    f=$(basename $out .tsv | sed 's#_#/#g'); case "$f" in *"$pat"*) ;; *) continue;; esac
    # file names with underscores (parse_time.go): restore
    [ -f /repo/$f ] || f=$(echo "$f" | sed 's#parse/time#parse_time#')
    [ -f /repo/$f ] || { echo "cannot map $out" >&2; continue; }
    grep -P '\tsurvived-suite$' $out | while IFS=$'\t' read -r k desc st; do
      d=$work/chk.$$; rm -rf $d; mkdir -p $d
      /verif/.bin/mutate -n $k -o $d/m.go /repo/$f >/dev/null
      printf '{"Replace":{"/repo/%s":"%s/m.go"}}' "$f" "$d" > $d/overlay.json
      caught=""
      for id in $(checks_for $f); do
        o=$(VERIF_OVERLAY=$d/overlay.json VERIF_FAIL_FAST=1 VERIF_EVIDENCE_DIR=/tmp/mut_evidence VERIF_REPLAY_DIR=/tmp/mut_replays timeout 600 ./check $id 2>/dev/null); rc=$?
        if [ $rc -ne 0 ]; then caught="$id(rc=$rc) $(echo "$o" | grep -m1 '  sig=' | cut -c1-120)"; break; fi
      done
      [ -z "$caught" ] && caught="SURVIVED-ALL"
      echo -e "$k\t$desc\t$caught"
      sed -i "s#^$k\t\(.*\)\tsurvived-suite\$#$k\t\1\tchecked: $caught#" $out
      rm -rf $d
    done
  done;;
*) echo "usage: $0 suite <files...> | checks [substring]"; exit 2;;
esac
